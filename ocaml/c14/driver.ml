(* C14 correspondence driver: runs the extracted measure model (exact rationals) and the
   independent oracles (Pick counting, unit cells, extreme-vertex orientation) on the harness's
   cases and compares them with the implementation's float observations.
   CORR = model vs implementation; SPEC = the property's statement evaluated on the
   implementation's own outputs (oracles, metamorphic relations, NaN/empty rules). *)
open Model
open Sfio

let z_of_int (i : int) : z = if i = 0 then Z0 else if i > 0 then Zpos (pos_of_int i) else Zneg (pos_of_int (-i))
let q_of_int (i : int) : q = { qnum = z_of_int i; qden = XH }
let q_frac (a : int) (b : int) : q = { qnum = z_of_int a; qden = pos_of_int b }
let rec pos_to_float = function XH -> 1.0 | XO p -> 2.0 *. pos_to_float p | XI p -> 2.0 *. pos_to_float p +. 1.0
let z_to_float = function Z0 -> 0.0 | Zpos p -> pos_to_float p | Zneg p -> -. pos_to_float p
let q_to_float (x : q) : float = let x = qred x in z_to_float x.qnum /. pos_to_float x.qden
let qs (x : q) : string = Printf.sprintf "%.17g" (q_to_float x)
let z_to_int = function Z0 -> 0 | Zpos p -> int_of_pos p | Zneg p -> - (int_of_pos p)

let ( +/ ) = qplus and ( */ ) = qmult and ( -/ ) = qminus
let q0 = q_of_int 0
let e12 = q_frac 1 1_000_000_000_000
let e9 = q_frac 1 1_000_000_000
let qmaxq a b = if qle_bool a b then b else a

type obs = {
  a : q option; s : q option; at : q option; st : q option; ta : q option; ts : q option; l : q option;
  c : string; (* "E" | "PANIC" | "x:y" *)
  cxy : (q * q) option; cnan : bool;
  adda : q option; addl : q option; disp : string;
}

let fq (h : string) : q option = f64_to_Q (n_of_hex h)

let parse_obs (s : string) : obs =
  let t = Array.of_list (tokens s) in
  let c = t.(7) in
  let cxy, cnan =
    if c = "E" || c = "PANIC" then (None, false)
    else match String.split_on_char ':' c with
      | [x; y] -> (match fq x, fq y with Some a, Some b -> (Some (a, b), false) | _ -> (None, true))
      | _ -> (None, true) in
  { a = fq t.(0); s = fq t.(1); at = fq t.(2); st = fq t.(3); ta = fq t.(4); ts = fq t.(5); l = fq t.(6);
    c; cxy; cnan; adda = fq t.(8); addl = fq t.(9); disp = t.(10) }

type grp = { tag : string; dump : string; g : q geomT; o : obs; finite : bool }

let parse_group (s : string) : grp =
  match String.split_on_char '|' s with
  | [tag; dump; obs] ->
    let gn = parse_dump dump in
    { tag; dump; g = geom_map qred (geom_of_bits gn); o = parse_obs obs; finite = xy_finite gn }
  | _ -> failwith "bad group"

(* all polygons of a geometry, in order *)
let rec polys_of (g : q geomT) : q polyT list =
  match g with
  | GPoly p -> [p]
  | GMPoly (_, ps) -> ps
  | GColl (_, gs) -> List.concat_map polys_of gs
  | _ -> []

let has flags f = List.mem f flags

(* exact rationals are kept unreduced by the model; reduction (a deep recursion of the extracted
   gcd) may need more than the default stack: re-run once under a raised limit *)
let () =
  if (try Sys.getenv "C14_STACK" with Not_found -> "") = "" then begin
    let cmd = Printf.sprintf "ulimit -s unlimited 2>/dev/null || ulimit -s 4000000 2>/dev/null; C14_STACK=1 exec %s %s"
        (Filename.quote Sys.executable_name) (String.concat " " (List.map Filename.quote (List.tl (Array.to_list Sys.argv)))) in
    exit (Sys.command cmd)
  end

let seen_exponents : (int, unit) Hashtbl.t = Hashtbl.create 600

let () =
  let path = Sys.argv.(1) in
  let samples = ref 0 in
  iter_lines path (fun line ->
      let f = split_tabs line in
      let id = f.(0) and cls = f.(1) in
      let flags = String.split_on_char ',' f.(2) in
      let co = Array.of_list (List.map int_of_string (String.split_on_char ',' f.(3))) in
      let kind = co.(6) in
      let tr = if kind = 0 then affine (z_of_int co.(0)) (z_of_int co.(1)) (z_of_int co.(2)) (z_of_int co.(3)) (z_of_int co.(4)) (z_of_int co.(5))
        else nonlinear (z_of_int kind) in
      count (Printf.sprintf "transform_kind%d" kind);
      let groups = List.map parse_group (Array.to_list (Array.sub f 4 (Array.length f - 4))) in
      incr cases;
      count ("class_" ^ cls);
      let lattice = has flags "lattice" and valid = has flags "valid" in
      let base = List.hd groups in
      note_case base.dump (not (is_empty base.g));
      (* exact measures of the base, for the rescaled variants *)
      let base_model = lazy (
        let g = base.g in
        (geom_area false None g, geom_area true None g,
         unscale (geom_length sqrt_lo_scaled g), unscale (geom_length sqrt_hi_scaled g),
         centroid_outcome sqrt_lo_scaled g)) in
      let failc kind name detail = fail id kind name (trunc detail) in
      (* ---------------- per group: model vs implementation, and the per-geometry statements *)
      let check_group (gr : grp) =
        let tg = gr.tag in
        (* one check name for the base and its variants; the variant tag goes into the detail *)
        let nm s = s in
        let failc kind name detail = failc kind name (if tg = "base" then detail else "[variant " ^ tg ^ "] " ^ detail) in
        if not gr.finite then failc "CORR" (nm "nonfinite_input") gr.dump
        else begin
          let g = gr.g and o = gr.o in
          let mag = magnitude g in
          let mag2 = mag */ mag in
          (* bound of the transformed ordinates: affine |a|+|b| <= 6, |c| <= 3; non-linear x*x + y *)
          let magt = if kind = 0 then (q_of_int 6 */ mag) +/ q_of_int 3 else (mag */ mag) +/ mag in
          let atol = if lattice then q0 else e12 */ mag2 in
          let attol = if lattice then q0 else e12 */ (magt */ magt) in
          let ctol = (if lattice then e12 else e9) */ mag in
          let cmp_area name (go : q option) (m : q) tol =
            match go with
            | None -> failc "SPEC" (nm ("nan_" ^ name)) gr.dump
            | Some v ->
              if not (q_close v m tol) then
                failc "CORR" (nm name) (Printf.sprintf "impl=%s model=%s %s" (qs v) (qs m) gr.dump) in
          let m_a = geom_area false None g and m_s = geom_area true None g in
          cmp_area "area" o.a m_a atol;
          cmp_area "signed_area" o.s m_s atol;
          cmp_area "area_transform" o.at (geom_area false (Some tr) g) attol;
          cmp_area "signed_area_transform" o.st (geom_area true (Some tr) g) attol;
          (* Area(WithTransform f) = TransformXY(f).Area() on the implementation's outputs *)
          (match o.at, o.ta with
           | Some x, Some y ->
             if not (q_close x y (attol +/ attol)) then
               failc "SPEC" (nm "transform_option") (Printf.sprintf "with=%s transformed=%s %s" (qs x) (qs y) gr.dump)
           | _ -> failc "SPEC" (nm "nan_transform") gr.dump);
          (match o.st, o.ts with
           | Some x, Some y ->
             if not (q_close x y (attol +/ attol)) then
               failc "SPEC" (nm "transform_option_signed") (Printf.sprintf "with=%s transformed=%s %s" (qs x) (qs y) gr.dump)
           | _ -> failc "SPEC" (nm "nan_transform") gr.dump);
          (* length: bracketed by rational square roots at 2^-80 *)
          let l_lo = unscale (geom_length sqrt_lo_scaled g) and l_hi = unscale (geom_length sqrt_hi_scaled g) in
          let ltol = e12 */ (l_hi +/ mag) in
          (match o.l with
           | None -> failc "SPEC" (nm "nan_length") gr.dump
           | Some v ->
             if not (q_between l_lo v l_hi ltol) then
               failc "CORR" (nm "length") (Printf.sprintf "impl=%s model=[%s,%s] %s" (qs v) (qs l_lo) (qs l_hi) gr.dump));
          (* centroid *)
          let mc = centroid_outcome sqrt_lo_scaled g in
          if o.cnan then failc "SPEC" (nm "nan_centroid") (o.c ^ " " ^ gr.dump);
          (match mc, o.c with
           | CPanic, "PANIC" -> count "centroid_panic"
           | CPanic, _ | _, "PANIC" -> failc "CORR" (nm "centroid_panic") (o.c ^ " " ^ gr.dump)
           | CRes None, "E" -> count "centroid_empty"
           | CRes None, _ | CRes (Some _), "E" ->
             failc "CORR" (nm "centroid_emptiness") (o.c ^ " " ^ gr.dump)
           | CRes (Some m), _ ->
             (match o.cxy with
              | Some c ->
                if not (xy_close c (xy_red m) ctol) then
                  failc "CORR" (nm "centroid")
                    (Printf.sprintf "impl=(%s,%s) model=(%s,%s) %s" (qs (fst c)) (qs (snd c)) (qs (fst m)) (qs (snd m)) gr.dump)
              | None -> ()));
          (* the driver evaluates the lineal formulas with 2^80 * sqrt (integers): lengths are divided
             by 2^80 afterwards and the centroid is a ratio, unchanged by the factor.  Cross-checked
             here on every sixteenth case with the unscaled bracket: the results must be identical. *)
          if tg = "base" && int_of_string id mod 16 = 0 && lattice then begin
            count "sqrt_scale_crosscheck";
            let same_o a b = match a, b with
              | CRes (Some p), CRes (Some q) -> qeq_bool (fst p) (fst q) && qeq_bool (snd p) (snd q)
              | CRes None, CRes None | CPanic, CPanic -> true
              | _ -> false in
            if not (same_o mc (centroid_outcome sqrt_lo g)) then failc "CORR" "sqrt_scale_centroid" gr.dump;
            if not (qeq_bool l_lo (geom_length sqrt_lo g)) then failc "CORR" "sqrt_scale_length" gr.dump
          end;
          if tg = "base" then begin
            count (Printf.sprintf "hdim%d_%s" (int_of_nat (hdim g)) (if is_empty g then "empty" else "nonempty"));
            (match g with GColl _ -> count "type_collection" | GPoly _ -> count "type_polygon" | GMPoly _ -> count "type_multipolygon"
                        | GLine _ -> count "type_line" | GMLine _ -> count "type_multiline" | GPoint _ -> count "type_point" | GMPoint _ -> count "type_multipoint")
          end;
          (* ---- statements on the implementation's outputs *)
          if o.disp <> "ok" then failc "SPEC" (nm "concrete_vs_geometry") (o.disp ^ " " ^ gr.dump);
          if valid then begin
            let empty = is_empty g in
            if empty then begin
              if o.c <> "E" then failc "SPEC" (nm "empty_centroid") (o.c ^ " " ^ gr.dump);
              (match o.a, o.l with
               | Some x, Some y -> if not (qeq_bool x q0 && qeq_bool y q0) then failc "SPEC" (nm "empty_measures") gr.dump
               | _ -> ())
            end else if o.c = "E" then failc "SPEC" (nm "nonempty_centroid_empty") gr.dump;
            (* independent oracle for geometries whose non-empty parts are all points: the plain
               average of every non-empty point, gathered from the dump (not through the model) *)
            if not empty && int_of_nat (hdim g) = 0 then begin
              let rec pts g = match g with
                | GPoint (MkPoint (_, Some v)) -> [v]
                | GMPoint (_, ps) -> List.concat_map (function MkPoint (_, Some v) -> [v] | _ -> []) ps
                | GColl (_, gs) -> List.concat_map pts gs
                | _ -> [] in
              let ps = pts g in
              let n = List.length ps in
              if n > 0 then begin
                count "oracle_point_average";
                let sx = List.fold_left (fun a v -> a +/ v.vx) q0 ps and sy = List.fold_left (fun a v -> a +/ v.vy) q0 ps in
                let ex = (qdiv sx (q_of_int n), qdiv sy (q_of_int n)) in
                (match o.cxy with
                 | Some c -> if not (xy_close c ex (e9 */ mag)) then
                     failc "SPEC" (nm "point_average") (Printf.sprintf "impl=(%s,%s) average of the %d points=(%s,%s) %s" (qs (fst c)) (qs (snd c)) n (qs (fst ex)) (qs (snd ex)) gr.dump)
                 | None -> ())
              end
            end;
            (* additivity over members *)
            (match o.a, o.adda with
             | Some x, Some y -> if not (q_close x y (atol +/ atol)) then failc "SPEC" (nm "area_additive") (Printf.sprintf "%s vs %s %s" (qs x) (qs y) gr.dump)
             | _ -> failc "SPEC" (nm "nan_members") gr.dump);
            (match o.l, o.addl with
             | Some x, Some y -> if not (q_close x y ltol) then failc "SPEC" (nm "length_additive") (Printf.sprintf "%s vs %s %s" (qs x) (qs y) gr.dump)
             | _ -> failc "SPEC" (nm "nan_members") gr.dump);
            (* independent oracles on lattice polygons *)
            if lattice && (tg = "base" || tg = "rot" || tg = "rev") then begin
              let ps = polys_of g in
              let lats = List.map poly_lattice ps in
              if ps <> [] && List.for_all (fun x -> x <> None) lats then begin
                let lats = List.map (function Some x -> x | None -> []) lats in
                let small = List.for_all (fun rs -> match rs with [] -> true | sh :: _ -> z_to_int (bbox_size sh) <= 4000) lats in
                if small then begin
                  count "oracle_pick";
                  let tot2 = ref 0 in
                  List.iter (fun rs ->
                      List.iter (fun r ->
                          if z_to_int (ring_B_gcd r) <> z_to_int (ring_B_count r) then
                            failc "CORR" "oracle_boundary_count" gr.dump) rs;
                      let p2 = z_to_int (pick_poly2 rs) in
                      if rings_disjoint rs then begin
                        count "oracle_pick_set";
                        if z_to_int (pick_set2 rs) <> p2 then failc "CORR" "oracle_pick_forms" gr.dump
                      end;
                      tot2 := !tot2 + p2) lats;
                  (match o.a with
                   | Some x ->
                     if not (qeq_bool (x +/ x) (q_of_int !tot2)) then
                       failc "SPEC" (nm "pick_area") (Printf.sprintf "impl=%s pick=%d/2 %s" (qs x) !tot2 gr.dump)
                   | None -> ());
                  (* the slab functional of C01 on the definitional point set (inG): the hypotheses of
                     theorem shoelace_is_slab_area_holes are evaluated (winding condition of every ring,
                     nesting at the trapezoid witnesses), and the exact area of the point set itself is
                     compared with the implementation's Area *)
                  if tg = "base" && List.length (List.concat_map (fun rs -> List.concat rs) lats) <= 60 then begin
                    count "oracle_slab";
                    List.iter (fun y -> if not (slab_hypotheses y) then failc "CORR" "slab_hypotheses" gr.dump) ps;
                    let tot = List.fold_left (fun acc y -> acc +/ slab_area y) q0 ps in
                    (match o.a with
                     | Some x -> if not (qeq_bool x tot) then
                         failc "SPEC" (nm "slab_area") (Printf.sprintf "impl=%s slab area of the point set=%s %s" (qs x) (qs tot) gr.dump)
                     | None -> ())
                  end;
                  (* the centre of mass of the point set itself (Props/C14_moments.v): first moments of the
                     trapezoids of the slab decomposition whose witness is a member (inG) over their area.
                     The hypotheses of theorem slab_hypotheses_imply_centroid are evaluated (slab_hypotheses
                     above, rings_nonzero here) and the exact quotient is compared with the implementation's
                     Centroid whenever the geometry's centroid is the areal one. *)
                  if tg = "base" && int_of_nat (hdim g) = 2
                     && List.length (List.concat_map (fun rs -> List.concat rs) lats) <= 60 then begin
                    count "oracle_centroid_moments";
                    List.iter (fun y -> if not (rings_nonzero y) then failc "CORR" "rings_nonzero" gr.dump) ps;
                    let judge what = function
                      | None -> failc "CORR" "moments_zero_area" (what ^ " " ^ gr.dump)
                      | Some ex ->
                        (match o.cxy with
                         | Some c ->
                           if not (xy_close c ex ctol) then
                             failc "SPEC" (nm "centroid_moments")
                               (Printf.sprintf "impl=(%s,%s) centre of mass of the point set (%s)=(%s,%s) %s"
                                  (qs (fst c)) (qs (snd c)) what (qs (fst ex)) (qs (snd ex)) gr.dump)
                         | None -> if not o.cnan then failc "SPEC" (nm "centroid_moments") (o.c ^ " " ^ gr.dump)) in
                    judge "slab cells per polygon" (Moments_check.point_set_centroid ps);
                    (* multipolygons also as ONE point set: all members in a common arrangement, pointwise
                       disjoint at the witnesses (theorem mpoly_hypotheses_imply_centroid) *)
                    (match g with
                     | GMPoly (_, mps) when List.length mps >= 2 ->
                       count "oracle_centroid_moments_union";
                       if not (mpoly_hypotheses mps) then failc "CORR" "mpoly_hypotheses" gr.dump;
                       judge "union of the members in one arrangement" (Moments_check.union_centroid mps)
                     | _ -> ())
                  end;
                  (* unit cells of rectilinear polygons: area and centre of mass *)
                  let top_areal = (match g with GPoly _ | GMPoly _ -> true | _ -> false) in
                  if top_areal && List.for_all (fun rs -> List.for_all rectilinear rs) lats then begin
                    count "oracle_cells";
                    let n = ref 0 and sx = ref 0 and sy = ref 0 in
                    List.iter (fun rs -> let ((k, x), y) = cells_poly rs in
                                n := !n + z_to_int k; sx := !sx + z_to_int x; sy := !sy + z_to_int y) lats;
                    (match o.a with
                     | Some x -> if not (qeq_bool x (q_of_int !n)) then failc "SPEC" (nm "cells_area") (Printf.sprintf "impl=%s cells=%d %s" (qs x) !n gr.dump)
                     | None -> ());
                    if !n > 0 then
                      (match o.cxy with
                       | Some c ->
                         let ex = (q_frac !sx (2 * !n), q_frac !sy (2 * !n)) in
                         if not (xy_close c ex (e9 */ mag)) then
                           failc "SPEC" (nm "cells_centroid") (Printf.sprintf "impl=(%s,%s) cells=(%s,%s) %s" (qs (fst c)) (qs (snd c)) (qs (fst ex)) (qs (snd ex)) gr.dump)
                       | None -> ())
                  end;
                  (* sign convention on a single polygon: orientation from the extreme vertex *)
                  (match g, lats with
                   | GPoly _, [sh :: holes] ->
                     let osh = ring_ccw_extreme sh and oh = List.map ring_ccw_extreme holes in
                     (match o.a, o.s with
                      | Some a, Some s ->
                        if osh = Some true && List.for_all (fun x -> x = Some false) oh then begin
                          count "oracle_sign_ccw";
                          if not (qeq_bool a s) then failc "SPEC" (nm "signed_positive_for_ccw") gr.dump end
                        else if osh = Some false && List.for_all (fun x -> x = Some true) oh then begin
                          count "oracle_sign_cw";
                          if not (qeq_bool (qopp a) s) then failc "SPEC" (nm "signed_negative_for_cw") gr.dump end
                        else count "oracle_sign_mixed"
                      | _ -> ())
                   | _ -> ())
                end
              end
            end
          end
        end in
      (* on the general-position classes the exact model is expensive: it is evaluated on the base
         and three variants; the relations below still use the outputs of every variant *)
      List.iter (fun (gr : grp) ->
          let k = List.hd (String.split_on_char ':' gr.tag) in
          if k = "sc" || k = "sm" then ()   (* rescaled by 2^k: judged against the base below *)
          else if lattice || k = "base" || k = "rot" || k = "rev" || k = "tr" then check_group gr) groups;
      (* ---------------- relations between the base and its variants *)
      if valid && base.finite then begin
        let b = base.o in
        let mag = magnitude base.g in
        let atol = if lattice then q0 else (e12 +/ e12) */ (mag */ mag) in
        let ctol = ((if lattice then e12 else e9) +/ e9) */ mag in
        let same_q name x y tol d =
          match x, y with
          | Some x, Some y -> if not (q_close x y tol) then failc "SPEC" name (Printf.sprintf "base=%s variant=%s %s" (qs x) (qs y) d)
          | _ -> () in
        let same_c name (cb : obs) (cv : obs) (shift : q * q) d =
          match cb.cxy, cv.cxy with
          | Some p, Some q -> if not (xy_close (xy_add p shift) q ctol) then
              failc "SPEC" name (Printf.sprintf "base=(%s,%s) variant=(%s,%s) %s" (qs (fst p)) (qs (snd p)) (qs (fst q)) (qs (snd q)) d)
          | None, None -> if cb.c <> cv.c then failc "SPEC" name (cb.c ^ " vs " ^ cv.c ^ " " ^ d)
          | _ -> failc "SPEC" name (cb.c ^ " vs " ^ cv.c ^ " " ^ d) in
        List.iter (fun (v : grp) ->
            if v.finite then begin
              let o = v.o in
              let d = "base: " ^ base.dump ^ " variant: " ^ v.dump in
              let ltol = match b.l with Some x -> e12 */ (qabs x +/ mag) | None -> q0 in
              let kind = List.hd (String.split_on_char ':' v.tag) in
              let neg = function Some x -> Some (qopp x) | None -> None in
              (match kind with
               | "base" -> ()
               | "rot" | "perm" | "zm" ->
                 same_q ("area_" ^ kind) b.a o.a atol d; same_q ("signed_area_" ^ kind) b.s o.s atol d;
                 same_q ("length_" ^ kind) b.l o.l ltol d; same_c ("centroid_" ^ kind) b o (q0, q0) d
               | "rev" ->
                 same_q "area_rev" b.a o.a atol d; same_q "signed_area_rev_negated" (neg b.s) o.s atol d;
                 same_q "length_rev" b.l o.l ltol d; same_c "centroid_rev" b o (q0, q0) d;
                 if not (geom_rev base.g = v.g) then failc "CORR" "reverse_structure" d
               | "fcw" | "fccw" ->
                 same_q ("area_" ^ kind) b.a o.a atol d;
                 same_q ("signed_" ^ kind) (if kind = "fcw" then neg o.a else o.a) o.s atol d;
                 same_q ("length_" ^ kind) b.l o.l ltol d; same_c ("centroid_" ^ kind) b o (q0, q0) d;
                 if not (geom_force (kind = "fcw") base.g = v.g) then failc "CORR" ("force_structure_" ^ kind) d
               | "tr" ->
                 (match String.split_on_char ':' v.tag with
                  | [_; hx; hy] ->
                    (match fq hx, fq hy with
                     | Some dx, Some dy ->
                       let big = mag +/ qabs dx +/ qabs dy in
                       let atol' = if lattice then q0 else (e12 +/ e12) */ (big */ big) in
                       same_q "area_translate" b.a o.a atol' d; same_q "signed_area_translate" b.s o.s atol' d;
                       same_q "length_translate" b.l o.l (ltol +/ ltol) d;
                       same_c "centroid_translate" b o (dx, dy) d;
                       if lattice && not (geom_map qred (geom_tr (translate (dx, dy)) base.g) = v.g) then
                         failc "CORR" "translate_structure" d
                     | _ -> ())
                  | _ -> ())
               | "sc" | "sm" ->
                 (* "sc": ordinates times 2^k, |k| > 512: squares of ordinates are not representable,
                    lengths and centroids are.  Length and Centroid must be 2^k times those of the base.
                    "sm": 1 <= |k| <= 300, every intermediate of the implementation stays in range:
                    Area, Length and Centroid must in addition be the exact measures of the base (the
                    model's, theorems area_scale_equivariant / length_scale_equivariant /
                    centroid_scale_equivariant) times 4^k, 2^k, 2^k, to within rounding relative to
                    the magnitude of the scaled ordinates. *)
                 (match String.split_on_char ':' v.tag with
                  | [_; ks] ->
                    let k = int_of_string ks in
                    let p2 = Z.pow_pos (Zpos (XO XH)) (pos_of_int (abs k)) in
                    let f = if k > 0 then inject_Z p2 else qinv (inject_Z p2) in
                    let moderate = (kind = "sm") in
                    count (if moderate then "rescaled_variants" else "scale_variants");
                    (match b.l, o.l with
                     | Some lb, Some lv ->
                       if not (q_close lv (lb */ f) (e12 */ (lb */ f))) then
                         failc "SPEC" "length_scale" (Printf.sprintf "k=%d base=%s variant/2^k=%s %s" k (qs lb) (qs (qdiv lv f)) v.dump)
                     | Some _, None -> failc "SPEC" "length_scale" (Printf.sprintf "k=%d variant length is not finite %s" k v.dump)
                     | _ -> ());
                    if o.cnan then failc "SPEC" "centroid_scale" (Printf.sprintf "k=%d variant centroid %s %s" k o.c v.dump)
                    else (match b.cxy, o.cxy with
                        | Some p, Some q ->
                          if not (xy_close (xy_scale p f) q (e9 */ (mag */ f))) then
                            failc "SPEC" "centroid_scale" (Printf.sprintf "k=%d base=(%s,%s) variant/2^k=(%s,%s) %s" k (qs (fst p)) (qs (snd p)) (qs (qdiv (fst q) f)) (qs (qdiv (snd q) f)) v.dump)
                        | None, None -> if b.c <> o.c then failc "SPEC" "centroid_scale" (b.c ^ " vs " ^ o.c ^ " " ^ v.dump)
                        | _ -> failc "SPEC" "centroid_scale" (Printf.sprintf "k=%d base %s variant %s %s" k b.c o.c v.dump));
                    if moderate then begin
                      if not (Hashtbl.mem seen_exponents k) then begin
                        Hashtbl.add seen_exponents k (); count "rescaled_distinct_exponents" end;
                      if is_empty base.g then count "rescaled_empty"
                      else count (Printf.sprintf "rescaled_hdim%d" (int_of_nat (hdim base.g)));
                      let unk x = qs (qdiv x f) and unk2 x = qs (qdiv x (f */ f)) in
                      let magf = mag */ f in
                      let f2 = f */ f in
                      (* the harness really scaled every X and Y by 2^k (Z/M are free) *)
                      if not (geom_2d (geom_map qred (geom_tr (scale f) base.g)) = geom_2d v.g) then
                        failc "CORR" "rescale_structure" d;
                      if o.disp <> "ok" then failc "SPEC" "concrete_vs_geometry" (Printf.sprintf "k=%d %s %s" k o.disp v.dump);
                      (* Area: relation on the implementation's outputs, then against the exact model *)
                      let a_rel = e9 */ (magf */ magf) and a_mod = e12 */ (magf */ magf) in
                      (match b.a, o.a, b.s, o.s with
                       | Some ab, Some av, Some sb, Some sv ->
                         if not (q_close av (ab */ f2) a_rel) then
                           failc "SPEC" "area_scale" (Printf.sprintf "k=%d base=%s variant/4^k=%s %s" k (qs ab) (unk2 av) v.dump);
                         if not (q_close sv (sb */ f2) a_rel) then
                           failc "SPEC" "signed_area_scale" (Printf.sprintf "k=%d base=%s variant/4^k=%s %s" k (qs sb) (unk2 sv) v.dump);
                         let (ma, ms, _, _, _) = Lazy.force base_model in
                         if not (q_close av (ma */ f2) a_mod) then
                           failc "CORR" "area_rescaled" (Printf.sprintf "k=%d impl/4^k=%s model=%s %s" k (unk2 av) (qs ma) v.dump);
                         if not (q_close sv (ms */ f2) a_mod) then
                           failc "CORR" "signed_area_rescaled" (Printf.sprintf "k=%d impl/4^k=%s model=%s %s" k (unk2 sv) (qs ms) v.dump)
                       | _ -> failc "SPEC" "nan_area_scale" (Printf.sprintf "k=%d %s" k v.dump));
                      (match o.a, o.adda, o.l, o.addl with
                       | Some x, Some y, Some l, Some ly ->
                         if not (q_close x y a_rel) then failc "SPEC" "area_additive" (Printf.sprintf "k=%d %s vs %s %s" k (unk2 x) (unk2 y) v.dump);
                         if not (q_close l ly (e9 */ (qabs l +/ magf))) then failc "SPEC" "length_additive" (Printf.sprintf "k=%d %s vs %s %s" k (unk l) (unk ly) v.dump)
                       | _ -> failc "SPEC" "nan_members" (Printf.sprintf "k=%d %s" k v.dump));
                      let (_, _, l_lo, l_hi, mc) = Lazy.force base_model in
                      (* Length against the bracketed exact length *)
                      (match o.l with
                       | Some lv ->
                         if not (q_between (l_lo */ f) lv (l_hi */ f) (e12 */ ((l_hi */ f) +/ magf))) then
                           failc "CORR" "length_rescaled" (Printf.sprintf "k=%d impl/2^k=%s model=[%s,%s] %s" k (unk lv) (qs l_lo) (qs l_hi) v.dump)
                       | None -> ());
                      (* Centroid against the exact centre of mass *)
                      (match mc, o.c with
                       | CRes None, "E" -> ()
                       | CRes (Some m), _ when o.cxy <> None ->
                         (match o.cxy with
                          | Some c ->
                            if not (xy_close c (xy_scale (xy_red m) f) (e12 */ magf)) then
                              failc "CORR" "centroid_rescaled"
                                (Printf.sprintf "k=%d impl/2^k=(%s,%s) exact=(%s,%s) %s" k (unk (fst c)) (unk (snd c)) (qs (fst m)) (qs (snd m)) v.dump)
                          | None -> ())
                       | _ -> if not o.cnan then failc "CORR" "centroid_rescaled" (Printf.sprintf "k=%d impl %s %s" k o.c v.dump))
                    end
                  | _ -> ())
               | _ -> ())
            end) groups
      end;
      if !samples < 4 && cls <> "empty" then begin
        incr samples;
        Printf.printf "SAMPLE\t%s\t%s\t%s\tmodel: area=%s signed=%s length_lo=%s centroid=%s\timpl: %s\n" id cls (trunc base.dump)
          (qs (geom_area false None base.g)) (qs (geom_area true None base.g)) (qs (unscale (geom_length sqrt_lo_scaled base.g)))
          (match geom_centroid sqrt_lo_scaled base.g with None -> "E" | Some c -> Printf.sprintf "(%s,%s)" (qs (fst c)) (qs (snd c)))
          (String.concat " " (List.map (function Some x -> qs x | None -> "NaN") [base.o.a; base.o.s; base.o.l]) ^ " " ^ base.o.c)
      end);
  finish ()
