(* C14: the exact centre of mass of the point set, by the slab decomposition with shape
   (Model/MeasureMoments.v; theorems of Props/C14_moments.v).
   [point_set_centroid ps]: every polygon in the arrangement of its own rings; the centroid of the
   geometry is (sum of the integrals of x, sum of the integrals of y) / (sum of the areas) - what
   Polygon / MultiPolygon / GeometryCollection Centroid must return for valid input (theorems
   slab_hypotheses_imply_centroid, centroid_members_weighted, centroid_dimension_rule).
   [union_centroid ps]: all members of a multipolygon in ONE arrangement, the point set is the union
   (theorem mpoly_hypotheses_imply_centroid). *)
open Model

let q0 : q = { qnum = Z0; qden = XH }

(* (area, integral of x, integral of y) summed over the polygons, each in its own arrangement *)
let sum_moments (ps : q polyT list) : q * q * q =
  List.fold_left (fun (a, mx, my) y ->
      let ((a', mx'), my') = poly_moments y in
      (qred (qplus a a'), qred (qplus mx mx'), qred (qplus my my'))) (q0, q0, q0) ps

let quotient ((a, mx, my) : q * q * q) : (q * q) option =
  if qeq_bool a q0 then None else Some (qred (qdiv mx a), qred (qdiv my a))

let point_set_centroid (ps : q polyT list) : (q * q) option = quotient (sum_moments ps)

let union_centroid (ps : q polyT list) : (q * q) option =
  let ((a, mx), my) = mpoly_moments ps in quotient (a, mx, my)
