(* C15 correspondence driver: runs the extracted Boundary / PointOnSurface models (exact rationals)
   on the harness's cases and compares them with the implementation's observations.
   CORR = model vs implementation; SPEC = the property's statement evaluated on the
   implementation's own outputs with the definitional semantics Planar.locate / inG. *)
open Model
open Sfio

(* printing only: (mantissa, binary exponent) so that huge numerators/denominators do not overflow *)
let rec pos_to_me = function
  | XH -> (1.0, 0)
  | XO p -> let (m, e) = pos_to_me p in let m = 2.0 *. m in if m > 1e200 then (m /. 1.1579208923731620e77, e + 256) else (m, e)
  | XI p -> let (m, e) = pos_to_me p in let m = 2.0 *. m +. (if e = 0 then 1.0 else 0.0) in if m > 1e200 then (m /. 1.1579208923731620e77, e + 256) else (m, e)
let q_to_float (x : q) : float =
  let x = qred x in
  let (dm, de) = pos_to_me x.qden in
  match x.qnum with
  | Z0 -> 0.0
  | Zpos p -> let (nm, ne) = pos_to_me p in Float.ldexp (nm /. dm) (ne - de)
  | Zneg p -> let (nm, ne) = pos_to_me p in -. Float.ldexp (nm /. dm) (ne - de)
let qs (x : q) : string = Printf.sprintf "%.17g" (q_to_float x)
let q_frac (a : int) (b : int) : q =
  { qnum = (if a = 0 then Z0 else if a > 0 then Zpos (pos_of_int a) else Zneg (pos_of_int (-a))); qden = pos_of_int b }
let e12 = q_frac 1 1_000_000_000_000
let e9 = q_frac 1 1_000_000_000

let point_str (p : q pointT) : string =
  match p with
  | MkPoint (ct, None) -> Printf.sprintf "POINT[%d] EMPTY" (int_of_ct ct)
  | MkPoint (ct, Some v) -> Printf.sprintf "POINT[%d](%s %s)" (int_of_ct ct) (qs v.vx) (qs v.vy)

let parse_point (s : string) : n pointT * bool =
  match parse_dump s with
  | GPoint p -> (p, all_finite (GPoint p))
  | _ -> failwith "point expected"

type node = { cen : (q * q) option; cen_bad : bool; gp : q pointT; gp_finite : bool; disp : string }

let parse_node (s : string) : node =
  match String.split_on_char ';' s with
  | [c; p; d] ->
    let cen, bad =
      if c = "E" then (None, false)
      else match String.split_on_char ':' c with
        | [x; y] -> (match f64_to_Q (n_of_hex x), f64_to_Q (n_of_hex y) with
            | Some a, Some b -> (Some (a, b), false)
            | _ -> (None, true))
        | _ -> failwith "bad centroid" in
    let pn, fin = parse_point p in
    { cen; cen_bad = bad; gp = point_q pn; gp_finite = fin; disp = d }
  | _ -> failwith "bad node"

(* optional profile of the driver's own stages (C15_PROF=1) *)
let prof = (try Sys.getenv "C15_PROF" = "1" with Not_found -> false)
let prof_tab : (string, float) Hashtbl.t = Hashtbl.create 16
let timed (name : string) (f : unit -> 'a) : 'a =
  if not prof then f () else begin
    let t0 = Sys.time () in
    let r = f () in
    let dt = Sys.time () -. t0 in
    Hashtbl.replace prof_tab name (dt +. (try Hashtbl.find prof_tab name with Not_found -> 0.0));
    r end

let is_coll = function GColl _ -> true | _ -> false
let kind_name = function
  | GPoint _ -> "point" | GLine _ -> "line" | GPoly _ -> "polygon" | GMPoint _ -> "multipoint"
  | GMLine _ -> "multiline" | GMPoly _ -> "multipolygon" | GColl _ -> "collection"

let () =
  let path = Sys.argv.(1) in
  let samples = ref 0 in
  iter_lines path (fun line ->
      let f = split_tabs line in
      let id = f.(0) and cls = f.(1) in
      let flags = String.split_on_char ',' f.(2) in
      let lattice = List.mem "lattice" flags and sliver = List.mem "sliver" flags and thorough = List.mem "thorough" flags in
      (* sliver: valid, but without clearance; only the clauses that need none are judged *)
      let valid = List.mem "valid" flags && not sliver in
      incr cases;
      count ("class_" ^ cls);
      let failc kind name detail = fail id kind name (trunc detail) in
      let gn, bn, bcn, bbn = timed "parse" (fun () -> (parse_dump f.(3), parse_dump f.(4), parse_dump f.(5), parse_dump f.(6))) in
      let gd = f.(3) in
      if not (all_finite gn) then failc "CORR" "nonfinite_input" gd
      else begin
        let g = timed "to_q" (fun () -> geom_q gn) in
        note_case gd (not (is_empty g));
        count ("type_" ^ kind_name g);
        if not (all_finite bn && all_finite bcn && all_finite bbn) then failc "SPEC" "nonfinite_boundary" gd;
        let gb, gbc, gbb = timed "to_q" (fun () -> (geom_q bn, geom_q bcn, geom_q bbn)) in
        (* ---------------------------------------------------------------- Boundary: model vs implementation *)
        let mb = timed "model_boundary" (fun () -> boundary g) in
        if mb <> gb then failc "CORR" "boundary" (Printf.sprintf "impl=%s input=%s" f.(4) gd);
        if boundary_concrete g <> gbc then failc "CORR" "boundary_concrete" (Printf.sprintf "impl=%s input=%s" f.(5) gd);
        if boundary gb <> gbb then failc "CORR" "boundary_of_boundary" (Printf.sprintf "impl=%s input=%s" f.(6) gd);
        (match List.map int_of_string (String.split_on_char ',' f.(7)) with
         | [d; e; bd; be] ->
           (* Dimension / IsEmpty agree with the structure (the model's dimension / is_empty ARE the
              structural definitions: highest type present, typed empties counted; no control point) *)
           if d <> int_of_nat (dimension g) then failc "SPEC" "dimension_vs_structure" (Printf.sprintf "impl=%d structure=%d input=%s" d (int_of_nat (dimension g)) gd);
           if (e = 1) <> is_empty g then failc "SPEC" "is_empty_vs_structure" gd;
           (* Dimension / IsEmpty of the result agree with its structure *)
           if bd <> int_of_nat (dimension gb) then failc "SPEC" "boundary_dimension_vs_structure" gd;
           if (be = 1) <> is_empty gb then failc "SPEC" "boundary_is_empty_vs_structure" gd;
           count (Printf.sprintf "dim%d_%s" (int_of_nat (dim_ie g)) (if is_empty g then "empty" else "nonempty"));
           count (if is_empty gb then "boundary_empty" else "boundary_nonempty")
         | _ -> failwith "bad dims");
        (* ---------------------------------------------------------------- Boundary: the statement on the implementation's output *)
        if valid then begin
          if not (geom_wf g) then failc "CORR" "valid_but_not_wf" gd;
          if not (dim_clause g gb) then failc "SPEC" "boundary_dim" (Printf.sprintf "boundary=%s input=%s" f.(4) gd);
          (* a collection's boundary is the collection of its members' NON-EMPTY boundaries *)
          (match g, gb with
           | GColl _, GColl (_, ms) ->
             if not (is_empty g) && List.exists is_empty ms then
               failc "SPEC" "collection_boundary_has_empty_member" (Printf.sprintf "boundary=%s input=%s" f.(4) gd)
           | GColl _, _ -> failc "SPEC" "collection_boundary_not_a_collection" (Printf.sprintf "boundary=%s input=%s" f.(4) gd)
           | _ -> ());
          if not (is_empty gbb) then failc "SPEC" "boundary_of_boundary_nonempty" (Printf.sprintf "bb=%s input=%s" f.(6) gd);
          (* the mod-2 rule on the implementation's output, for lineal input of any size: membership in
             Boundary(g) agrees with "end point of an odd number of non-closed members" at every end point
             and every reported point (theorem mod2_exact_everywhere: hence at every point of Q^2); for
             collections every odd end point of every lineal leaf is reported *)
          (match g with
           | GLine _ | GMLine _ ->
             count "spec_mod2_exact_evaluated";
             if not (puntalb gb) then failc "SPEC" "lineal_boundary_not_puntal" (Printf.sprintf "boundary=%s input=%s" f.(4) gd)
             else if not (timed "spec_mod2" (fun () -> mod2_exact g gb)) then
               failc "SPEC" "boundary_mod2_rule" (Printf.sprintf "boundary=%s input=%s" f.(4) gd)
           | _ -> ());
          if not (timed "spec_mod2" (fun () -> mod2_complete g gb)) then
            failc "SPEC" "boundary_misses_odd_end_point_of_lineal_leaf" (Printf.sprintf "boundary=%s input=%s" f.(4) gd);
          if (not lattice) && members_overlap g then count "float_multipolygon_members_overlap_exactly_excluded"
          else begin
            if not (timed "spec_probes" (fun () -> probes_on_boundary g gb)) then failc "SPEC" "boundary_point_not_on_boundary" (Printf.sprintf "boundary=%s input=%s" f.(4) gd);
            if int_of_nat (n_segments g) <= 24 then begin
              count "spec_boundary_exact_evaluated";
              if not (timed "spec_exact" (fun () -> boundary_exact_ok g gb)) then failc "SPEC" "boundary_not_exactly_the_boundary_set" (Printf.sprintf "boundary=%s input=%s" f.(4) gd)
            end else count "spec_boundary_exact_skipped_large"
          end;
          count "spec_boundary_evaluated"
        end;
        (* ---------------------------------------------------------------- PointOnSurface *)
        let nodes = List.map parse_node (String.split_on_char '|' f.(8)) in
        let ngeoms = g :: (if is_coll g then leaves g else []) in
        if List.length nodes <> List.length ngeoms then failc "CORR" "walk_leaves" gd
        else begin
          let table = List.combine ngeoms nodes in
          let cen (x : q geomT) : (q * q) option =
            match List.find_opt (fun (y, _) -> y = x) table with
            | Some (_, nd) -> nd.cen
            | None -> None in
          let mag = magnitude g in
          let tol = qmult (if lattice then e12 else e9) mag in
          List.iteri (fun k (x, nd) ->
              let nm s = if k = 0 then s else s ^ "@leaf" in
              let d () = Printf.sprintf "impl=%s model=%s centroid=%s node=%d input=%s" (point_str nd.gp) (point_str (pos cen x))
                  (match nd.cen with None -> "E" | Some (a, b) -> qs a ^ " " ^ qs b) k gd in
              if nd.disp <> "ok" then failc "SPEC" (nm "pos_concrete_vs_geometry") (d ());
              if nd.cen_bad && valid then failc "SPEC" (nm "centroid_not_finite") (d ());
              if not nd.gp_finite then failc "SPEC" (nm "pos_not_finite") (d ());
              let ok = timed "judge_pos" (fun () ->
                match x with
                | GPoint _ | GMPoint _ | GLine _ | GMLine _ -> near_ok (cen x) (leaf_cands cen x) nd.gp
                | GPoly y -> poly_pos_ok y nd.gp tol
                | GMPoly (_, ys) -> mpoly_pos_ok ys nd.gp tol
                | GColl _ ->
                  let lv = List.tl table in
                  let md = max_dim_nonempty (List.map fst lv) in
                  let cands = List.filter_map (fun (l, (ln : node)) -> if dimension l = md then Some ln.gp else None) lv in
                  near_ok (cen x) cands nd.gp) in
              let fragile =
                (not lattice) &&
                (match x with
                 | GPoly y -> row_fragile y tol
                 | GMPoly (_, ys) -> List.exists (fun y -> row_fragile y tol) ys
                 | GColl _ -> List.exists (fun (l, _) -> match l with
                     | GPoly y -> row_fragile y tol
                     | GMPoly (_, ys) -> List.exists (fun y -> row_fragile y tol) ys
                     | _ -> false) (List.tl table)
                 | _ -> false) in
              if sliver then begin
                count "sliver_corr_skipped";
                if not (pos_intersects x nd.gp) then failc "SPEC" (nm ("pos_empty_or_off_surface_" ^ kind_name x)) (d ())
              end
              else if fragile then count "float_row_decision_fragile_corr_skipped"
              else if not ok then failc "CORR" (nm ("pos_" ^ kind_name x)) (d ());
              if timed "model_pos" (fun () -> point_eqb (pos cen x) nd.gp) then count "pos_exactly_equal" else count "pos_within_tolerance";
              (match x with
               | GPoly y ->
                 (match area_cands y with
                  | [] -> if not (is_empty x) then count "row_fallback"
                  | cs -> count (Printf.sprintf "row_intervals_%d" (min 4 (List.length cs)));
                    (match poly_row y with
                     | Some ri -> if row_shifted y then count "row_shifted_off_vertices" else count "row_at_centre"
                     | None -> ()))
               | _ -> ());
              if valid then begin
                (* hypotheses of theorem pos_areal_interior on valid input: the decidable ones, and the
                   nesting condition at the implementation's point *)
                let polys = (match x with GPoly y -> [y] | GMPoly (_, ys) -> ys | _ -> []) in
                List.iter (fun y ->
                    if row_regular y then begin
                      if row_hyps y then count "interior_theorem_hypotheses_hold"
                      else failc "CORR" (nm "interior_theorem_hypotheses_fail_on_valid_polygon") (d ());
                      (* the executable nesting clauses of pos_areal_interior_exec (hole_inside, not_nested,
                         shell_outside at every witness of the exact arrangement) *)
                      let holes = (match y with MkPoly (_, rs) -> List.length rs - 1) in
                      if holes > 0 && (not thorough) && int_of_nat (n_segments (GPoly y)) > 11 then
                        count "interior_theorem_nest_okb_skipped_large_in_quick_tier"
                      else if timed "nest_okb" (fun () -> nest_okb2 y) then begin
                        count "interior_theorem_nest_okb_holds";
                        (* thorough tier, lattice: the whole polygon clause of ogc_valid (count only: its
                           agreement with Validate is the subject of C03) *)
                        if thorough && lattice then
                          count (if timed "ogc_nest_okb" (fun () -> ogc_nest_okb y) then "ogc_polygon_clause_holds" else "ogc_polygon_clause_fails")
                      end
                      else if lattice then failc "CORR" (nm "interior_theorem_nest_okb_fails_on_valid_polygon") (d ())
                      else count "float_polygon_nesting_exactly_invalid_excluded";
                      (match x, point_xy nd.gp with
                       | GPoly _, Some p ->
                         if nesting_atb y p then count "interior_theorem_nesting_holds_at_point"
                         else failc "CORR" (nm "interior_theorem_nesting_fails_on_valid_polygon") (d ())
                       | _ -> ())
                    end else if not (poly_empty y) then failc "CORR" (nm "valid_polygon_without_regular_row") (d ())) polys;
                if not (timed "spec_pos" (fun () -> pos_ok x nd.gp)) then failc "SPEC" (nm ("pos_not_on_surface_" ^ kind_name x)) (d ());
                count "spec_pos_evaluated"
              end) table
        end;
        if !samples < 5 && not (is_empty g) && (cls = "polygon" || cls = "multiline" || cls = "collection" || cls = "multiline_large" || cls = "collection_mixed_nest") then begin
          incr samples;
          let cen0 = (match String.split_on_char '|' f.(8) with s :: _ -> (parse_node s) | [] -> failwith "no node") in
          Printf.printf "SAMPLE\t%s\t%s\tinput=%s\tboundary(model=impl)=%s\tpos impl=%s\n" id cls (trunc gd) (trunc f.(4)) (point_str cen0.gp)
        end
      end);
  if prof then Hashtbl.iter (fun k v -> Printf.eprintf "PROF %s %.2fs\n" k v) prof_tab;
  finish ()
