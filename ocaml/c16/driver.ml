(* C16 correspondence driver: replays every operation history of the harness on the extracted
   model (Model/CType.v, carrier N = bit patterns) and compares after every step.
     CORR  the model's result differs from the implementation's dump
     SPEC  the property's executable statement (CType.spec, CType.consistent) is false of the
           implementation's own output, or the accessor audit of the harness found a node whose
           reported coordinates type / unused ordinate disagrees
   Operations whose XY arithmetic is floating point are replayed with that arithmetic taken from
   the implementation's output (orientation signs, vertex function table, XY-only results) - the
   theorems hold for every such argument; what is compared is everything else: tree shape, node
   types, and the Z/M value of every vertex. *)
open Model
open Sfio

let split_bar s = Array.of_list (String.split_on_char '|' s)

let float_of_n (v : n) : float = Int64.float_of_bits (Int64.of_string ("0x" ^ hex_of_n 16 v))
let is_fin f = Float.is_finite f

let xy_key (v : n vtx) = hex_of_n 16 v.vx ^ hex_of_n 16 v.vy
let ring_key (vs : n vtx list) = String.concat "" (List.map xy_key vs)

(* rings in the traversal order of the harness (ringSigns) *)
let rec rings_of (g : n geomT) : n vtx list list =
  match g with
  | GPoly (MkPoly (_, rs)) -> List.map (fun (MkLine (_, vs)) -> vs) rs
  | GMPoly (_, ps) -> List.concat_map (fun (MkPoly (_, rs)) -> List.map (fun (MkLine (_, vs)) -> vs) rs) ps
  | GColl (_, gs) -> List.concat_map rings_of gs
  | _ -> []

let orientation_of (g : n geomT) (signs : string) : (n lineT -> comparison) option =
  let rs = rings_of g in
  if List.length rs <> String.length signs then None
  else begin
    let tbl = Hashtbl.create 16 in
    List.iteri (fun i vs ->
        let c = match signs.[i] with '-' -> Lt | '+' -> Gt | _ -> Eq in
        Hashtbl.replace tbl (ring_key vs) c) rs;
    Some (fun (MkLine (_, vs)) -> try Hashtbl.find tbl (ring_key vs) with Not_found -> Eq)
  end

(* the vertex function of an arithmetic TransformXY, rebuilt from observed pairs *)
let table_fun (src : n vtx list) (dst : n vtx list) : (n -> n -> n * n, string) result =
  if List.length src <> List.length dst then Error "vertex count changed"
  else begin
    let tbl = Hashtbl.create 32 in
    let bad = ref None in
    List.iter2 (fun a b ->
        let k = xy_key a in
        match Hashtbl.find_opt tbl k with
        | None -> Hashtbl.replace tbl k (b.vx, b.vy)
        | Some (x, y) -> if x <> b.vx || y <> b.vy then bad := Some k) src dst;
    match !bad with
    | Some k -> Error ("same XY mapped to two results: " ^ k)
    | None -> Ok (fun x y -> try Hashtbl.find tbl (hex_of_n 16 x ^ hex_of_n 16 y) with Not_found -> (x, y))
  end

let xyfam_of_arg (arg : string) : xyfam =
  match String.split_on_char ',' arg with
  | ["id"] -> FId | ["swap"] -> FSwap | ["negx"] -> FNegX | ["negy"] -> FNegY
  | ["abs"] -> FAbs | ["rot90"] -> FRot90
  | ["const"; a; b] -> FConst (n_of_hex a, n_of_hex b)
  | _ -> failwith ("bad tx argument " ^ arg)

let rec is_subseq (a : n vtx list) (b : n vtx list) : bool =
  match a, b with
  | [], _ -> true
  | _, [] -> false
  | x :: a', y :: b' -> if x = y then is_subseq a' b' else is_subseq a b'

(* densify: every inserted vertex lies between its neighbours in every ordinate (when finite) *)
let densify_between (s : n vtx list) (s' : n vtx list) : string option =
  let bad = ref None in
  let between lo hi v =
    let lo = float_of_n lo and hi = float_of_n hi and v = float_of_n v in
    if is_fin lo && is_fin hi then (Float.min lo hi <= v && v <= Float.max lo hi) else true in
  let rec go prev rest out pending =
    match out with
    | [] -> ()
    | y :: out' ->
      (match rest with
       | x :: rest' when x = y ->
         (match prev with
          | Some p ->
            List.iter (fun w ->
                if not (between p.vx x.vx w.vx && between p.vy x.vy w.vy
                        && between p.vz x.vz w.vz && between p.vm x.vm w.vm)
                then bad := Some (dump_geom (GLine (MkLine (XYZM, [p; w; x]))))) pending
          | None -> ());
         go (Some x) rest' out' []
       | _ -> go prev rest out' (y :: pending)) in
  go None s s' [];
  !bad

let xyop_of = function
  | "centroid" -> XCentroid | "hull" -> XConvexHull | "pos" -> XPointOnSurface
  | "env" -> XEnvelope | _ -> XSetOp

let dummy_orient : n lineT -> comparison = fun _ -> Eq
let dummy_ins : n vtx -> n vtx -> n vtx list = fun _ _ -> []

let () =
  let path = Sys.argv.(1) in
  iter_lines path (fun line ->
      let f = split_tabs line in
      let id = f.(0) and cls = f.(1) in
      incr cases;
      count ("class_" ^ cls);
      let b = split_bar f.(3) in
      let built = b.(0) in
      let g0 = parse_dump built in
      (* constructors: what New* made of the description *)
      if f.(2) <> "-" then begin
        let bm = dump_geom (build N0 (parse_dump f.(2))) in
        if bm <> built then fail id "CORR" "build" (trunc ("model=" ^ bm ^ " impl=" ^ built))
      end;
      if not (consistent_n g0) then fail id "SPEC" "consistent" (trunc ("built " ^ built));
      if b.(1) <> "" then fail id "SPEC" "accessor_audit" (trunc ("built " ^ built ^ " : " ^ b.(1)));
      note_case (String.concat "\t" (Array.to_list (Array.sub f 2 (Array.length f - 2))))
        (Array.length f > 4 && not (is_empty g0));
      let m = ref g0 in      (* the model's own state: fold of apply *)
      let prev = ref g0 in   (* the implementation's previous value *)
      for k = 4 to Array.length f - 1 do
        let s = split_bar f.(k) in
        let name0 = s.(0) and arg = s.(1) and res = s.(2) and aud = s.(3) in
        let probe = String.length name0 > 0 && name0.[0] = '?' in
        let name = if probe then String.sub name0 1 (String.length name0 - 1) else name0 in
        let where = Printf.sprintf "step %d %s(%s) on %s" (k - 3) name arg (dump_geom !prev) in
        count ("op_" ^ name);
        if res = "ERR" || res = "PANIC" || res = "NANXY" then begin
          count ("nogeom_" ^ name ^ "_" ^ res);
          (* a failed round trip violates the property inside the domain of C04's theorem (WKB
             reserves NaN X/Y for the empty point); outside it the model must fail as well *)
          if name = "wkt" || (name = "wkb" && wf_wkb !prev) then
            fail id "SPEC" (name ^ "_roundtrip") (trunc (where ^ " -> " ^ res));
          if name = "wkb" then
            (match dec (enc !m) with
             | Ok _ -> fail id "CORR" "wkb" (trunc (where ^ " model decodes, impl=" ^ res))
             | _ -> count "wkb_outside_domain")
        end else begin
          let r = parse_dump res in
          let old = geom_ct !prev in
          if not (consistent_n r) then fail id "SPEC" "consistent" (trunc (where ^ " -> " ^ res));
          if aud <> "" then fail id "SPEC" "accessor_audit" (trunc (where ^ " -> " ^ res ^ " : " ^ aud));
          (* a modelled operation: S on the implementation's (input, output), then model vs output *)
          let modelled (o : n op) =
            if not (spec_n !prev o r) then fail id "SPEC" ("spec_" ^ name) (trunc (where ^ " -> " ^ res));
            match apply_n !m o with
            | None -> fail id "CORR" ("inapplicable_" ^ name) (trunc where); r
            | Some rm ->
              let d = dump_geom rm in
              if d <> res then begin fail id "CORR" name (trunc (where ^ " model=" ^ d ^ " impl=" ^ res)); r end
              else rm in
          let next =
            match name with
            | "force" -> modelled (OForce (ct_of_int (int_of_string arg)))
            | "force2d" -> modelled OForce2D
            | "reverse" -> modelled OReverse
            | "tx" -> modelled (OTransform (xyfam_fun (xyfam_of_arg arg)))
            | "txf" | "snap" ->
              (match table_fun (geom_vs !prev) (geom_vs r) with
               | Error e -> fail id "SPEC" ("function_" ^ name) (trunc (where ^ " -> " ^ res ^ " : " ^ e)); r
               | Ok fn -> modelled (OTransform fn))
            | "cw" | "ccw" ->
              (match orientation_of !m arg with
               | None -> fail id "CORR" "ring_signs" (trunc where); r
               | Some o -> modelled (if name = "cw" then OForceCW o else OForceCCW o))
            | "asmulti" -> modelled OAsMulti
            | "member" -> modelled (OMember (nat_of_int (int_of_string arg)))
            | "startpoint" -> modelled OStartPoint
            | "endpoint" -> modelled OEndPoint
            | "dumpcoll" -> modelled ODumpColl
            | "dumpcoords" -> modelled ODumpCoords
            | "dumprings" -> modelled ODumpRings
            | "coords" -> modelled OCoords
            | "rebuild" ->
              let cts = List.init (String.length arg) (fun i -> ct_of_int (Char.code arg.[i] - 48)) in
              modelled (ORebuild cts)
            | "wkb" ->
              (* the property: the round trip is the identity (inside the domain of C04's theorem) *)
              if wf_wkb !prev && res <> dump_geom !prev then
                fail id "SPEC" "wkb_roundtrip" (trunc (where ^ " -> " ^ res));
              (match dec (enc !m) with
               | Ok (rm, _) ->
                 let d = dump_geom rm in
                 if d <> res then begin fail id "CORR" "wkb" (trunc (where ^ " model=" ^ d ^ " impl=" ^ res)); r end
                 else rm
               | _ -> fail id "CORR" "wkb" (trunc (where ^ " model=ERR impl=" ^ res)); r)
            | "wkt" ->
              if res <> dump_geom !prev then fail id "SPEC" "wkt_roundtrip" (trunc (where ^ " -> " ^ res));
              if res <> dump_geom !m then begin fail id "CORR" "wkt" (trunc where); r end else !m
            | "densify" ->
              (* S does not look at the interpolated values; those are checked to lie between *)
              if not (spec_n !prev (ODensify dummy_ins) r) then
                fail id "SPEC" "spec_densify" (trunc (where ^ " -> " ^ res));
              (try
                 List.iter2 (fun s s' ->
                     match densify_between s s' with
                     | Some w -> fail id "SPEC" "densify_interpolation" (trunc (where ^ " : " ^ w))
                     | None -> ()) (geom_seqs !prev) (geom_seqs r)
               with Invalid_argument _ -> ());
              r
            | "simplify" ->
              if geom_ct r <> old then fail id "SPEC" "simplify_ctype" (trunc (where ^ " -> " ^ res));
              let src = geom_seqs !prev in
              List.iter (fun s' ->
                  if s' <> [] && not (List.exists (fun s -> is_subseq s' s) src) then
                    fail id "SPEC" "simplify_payload" (trunc (where ^ " -> " ^ res))) (geom_seqs r);
              r
            | "centroid" | "hull" | "pos" | "env" | "setop" ->
              if not (is_empty r) then count ("xy_nonempty_" ^ name);
              modelled (OXYOnly (xyop_of name, r))
            | "boundary" ->
              (* not in the property's list: only consistency is required; the type is recorded *)
              count (Printf.sprintf "boundary_ct_%d_to_%d" (int_of_ct old) (int_of_ct (geom_ct r)));
              r
            | "newpoint" ->
              (* NewPoint(Coordinates{...}): arg = type and the four fields as given, then type and
                 the four fields that Point.Coordinates() reports *)
              (match String.split_on_char ',' arg with
               | [ct; x; y; z; mm; ot; ox; oy; oz; om] ->
                 let ct = ct_of_int (int_of_string ct) in
                 let given = { vx = n_of_hex x; vy = n_of_hex y; vz = n_of_hex z; vm = n_of_hex mm } in
                 let obs = MkPoint (ct_of_int (int_of_string ot),
                                    Some { vx = n_of_hex ox; vy = n_of_hex oy; vz = n_of_hex oz; vm = n_of_hex om }) in
                 if not (consistent_n (GPoint obs)) then
                   fail id "SPEC" "new_point_unused_fields" (trunc ("NewPoint(" ^ arg ^ ")"));
                 if new_point_n ct given <> obs then fail id "CORR" "new_point" (trunc ("NewPoint(" ^ arg ^ ")"));
                 if given.vz <> N0 && not (ct_has_z ct) || given.vm <> N0 && not (ct_has_m ct) then count "junk_given"
               | _ -> fail id "CORR" "unknown_op" ("newpoint " ^ arg));
              r
            | "interp" ->
              if geom_ct r <> old then fail id "SPEC" "interp_ctype" (trunc (where ^ " -> " ^ res));
              r
            | _ -> fail id "CORR" "unknown_op" name; r in
          if not probe then begin m := next; prev := r end
        end
      done;
      if !cases <= 3 then Printf.printf "SAMPLE\t%s\n" (trunc line));
  finish ()
