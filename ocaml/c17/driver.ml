(* C17 correspondence driver: runs the extracted transform models and the executable statements of
   the contracts (coq/Model/TrJudge.v) on the harness's cases. Hand-written, trusted. *)
open Model
open Sfio

let z_of_int (i : int) : z =
  if i = 0 then Z0 else if i > 0 then Zpos (pos_of_int i) else Zneg (pos_of_int (-i))

let samples = ref 0
let sample tag line =
  if !samples < 8 && (Hashtbl.hash line) mod 17 = 0 && String.length line < 900 then begin
    incr samples; Printf.printf "SAMPLE\t%s\t%s\n" tag (trunc line) end

let nontrivial_geom (g : n geomT) = not (is_empty g) && List.length (geom_vs g) >= 2

(* ---- REV ---- *)
let do_rev id (f : string array) =
  let gd = f.(3) and outd = f.(4) and out2d = f.(5) in
  let g = parse_dump gd and out = parse_dump outd in
  note_case ("REV " ^ gd) (nontrivial_geom g);
  count ("rev_" ^ (List.hd (String.split_on_char '/' f.(2))));
  count ("api" ^ (String.concat "_" (List.tl (String.split_on_char '/' f.(2)))));
  let m = dump_geom (rev_geom g) in
  if m <> outd then fail id "CORR" "reverse_model" (trunc ("model=" ^ m ^ " impl=" ^ outd));
  if out2d <> gd then fail id "SPEC" "reverse_involution" (trunc ("in=" ^ gd ^ " twice=" ^ out2d));
  if not (rev_spec_b g out) then fail id "SPEC" "reverse_same_segments" (trunc ("in=" ^ gd ^ " out=" ^ outd));
  if f.(6) <> f.(7) then fail id "SPEC" "reverse_validity" (Printf.sprintf "valid in=%s out=%s" f.(6) f.(7))

(* ---- SNAP ---- *)
let do_snap id (f : string array) =
  let cls = f.(2) in
  let dp = int_of_string f.(3) in
  let x = n_of_hex f.(4) and y = n_of_hex f.(5) and yneg = n_of_hex f.(6) and yy = n_of_hex f.(7) in
  count ("snap_" ^ cls);
  note_case ("SNAP " ^ f.(3) ^ " " ^ f.(4)) (f.(4) <> "0000000000000000" && f.(4) <> "8000000000000000");
  let detail = Printf.sprintf "dp=%d x=%s y=%s yneg=%s yy=%s" dp f.(4) f.(5) f.(6) f.(7) in
  match snap_judge (z_of_int dp) x y yneg yy with
  | None -> count "snap_input_not_finite"
  | Some v ->
    if not v.sv_finite then fail id "SPEC" "snap_finite" detail
    else begin
      if not v.sv_odd then fail id "SPEC" "snap_odd" detail;
      if not v.sv_half then fail id "SPEC" "snap_half_step" detail;
      if not v.sv_grid then fail id "SPEC" "snap_on_grid" detail;
      if v.sv_idem_dom then begin
        count "snap_idem_domain";
        if not v.sv_idem then fail id "SPEC" "snap_idempotent" detail end;
      if v.sv_near_tie then count "snap_near_tie"
      else if not v.sv_model then fail id "CORR" "snap_model" detail
    end


(* ---- FORCE ---- *)
let do_force id (f : string array) =
  let gd = f.(3) and cwd = f.(4) and ccwd = f.(5) in
  let g = parse_dump gd and cw = parse_dump cwd and ccw = parse_dump ccwd in
  note_case ("FORCE " ^ gd) (nontrivial_geom g);
  count ("force_" ^ (List.hd (String.split_on_char '/' f.(2))));
  let flag i = f.(i) = "1" in
  match force_judge g cw ccw with
  | None -> fail id "CORR" "force_not_finite" (trunc gd)
  | Some v ->
    let d = trunc ("in=" ^ gd ^ " cw=" ^ cwd ^ " ccw=" ^ ccwd) in
    if not v.fv_model_cw then fail id "CORR" "force_cw_model" d;
    if not v.fv_model_ccw then fail id "CORR" "force_ccw_model" d;
    if v.fv_in_cw <> flag 6 then fail id "CORR" "is_cw_model" d;
    if v.fv_in_ccw <> flag 7 then fail id "CORR" "is_ccw_model" d;
    if v.fv_nonzero then begin
      count "force_nonzero_area";
      (* the contract: after forcing, IsCW / IsCCW hold - by the implementation's own predicate and by exact areas *)
      if not (flag 8) then fail id "SPEC" "force_cw_is_cw" d;
      if not (flag 9) then fail id "SPEC" "force_ccw_is_ccw" d;
      if not v.fv_out_cw then fail id "SPEC" "force_cw_exact_orientation" d;
      if not v.fv_out_ccw then fail id "SPEC" "force_ccw_exact_orientation" d;
      if f.(10) <> cwd then fail id "SPEC" "force_cw_idempotent" (trunc ("once=" ^ cwd ^ " twice=" ^ f.(10)));
      if f.(11) <> ccwd then fail id "SPEC" "force_ccw_idempotent" (trunc ("once=" ^ ccwd ^ " twice=" ^ f.(11)))
    end else count "force_zero_area_exterior";
    if not v.fv_same_cw then fail id "SPEC" "force_cw_same_pointset" d;
    if not v.fv_same_ccw then fail id "SPEC" "force_ccw_same_pointset" d

(* ---- DENS ---- *)
let do_dens id (f : string array) =
  let gd = f.(3) and dh = f.(4) and outd = f.(5) in
  let g = parse_dump gd in
  note_case ("DENS " ^ dh ^ " " ^ gd) (nontrivial_geom g);
  count ("dens_" ^ (List.hd (String.split_on_char '/' f.(2))));
  let out = if outd = "PANIC" then None else Some (parse_dump outd) in
  let d = trunc ("d=" ^ dh ^ " in=" ^ gd ^ " out=" ^ outd) in
  match dens_judge g (n_of_hex dh) out with
  | None -> fail id "CORR" "dens_not_finite" d
  | Some v ->
    if out = None then begin
      count "dens_panic";
      if not v.dv_panic_model then fail id "CORR" "dens_panic_model" d
    end else begin
      if v.dv_panic_model then fail id "CORR" "dens_panic_model" d
      else begin
        if not v.dv_shape then fail id "SPEC" "densify_shape" d;
        if not v.dv_spec then fail id "SPEC" "densify_contract" d;
        if v.dv_near_tie then count "dens_near_tie"
        else if not v.dv_model then fail id "CORR" "densify_model" d
      end
    end

(* ---- SIMP ---- *)
(* statistic only (no verdict depends on it): replays the model's loops on one vertex list with the
   extracted scan_max / thr_ok / unsnoc and reports whether a span holding at least one vertex was
   measured against a chord of zero length - (as the first chord of the line: a closed line,
   as any later chord: a retained vertex that the line visits again) *)
let zero_chord_use (t : q) (vs : qv list) : bool * bool =
  let first = ref false and later = ref false and scans = ref 0 in
  let q0 = { qnum = Z0; qden = XH } in
  let rec inner a mids b after =
    if mids <> [] && xy_eqb a b then (if !scans = 0 then first := true else later := true);
    incr scans;
    let (best, bi) = scan_max a b [] mids q0 None in
    if thr_ok t best || !scans > 100000 then (b, after)
    else match bi with
      | None -> (b, after)
      | Some ((pre, p), suf) -> inner a pre p (suf @ (b :: after)) in
  let rec outer a tail = match unsnoc tail with
    | None -> ()
    | Some (mids, e) -> let (b, after) = inner a mids e [] in outer b after in
  (match vs with a :: (_ :: _ :: _ as tail) -> outer a tail | _ -> ());
  (!first, !later)

let do_simp id (f : string array) =
  let gd = f.(3) and th = f.(4) and outd = f.(5) in
  let g = parse_dump gd and out = parse_dump outd in
  note_case ("SIMP " ^ th ^ " " ^ gd) (nontrivial_geom g);
  let cls = List.hd (String.split_on_char '/' f.(2)) in
  count ("simp_" ^ cls);
  let revisit = String.length cls >= 7 && String.sub cls 0 7 = "revisit" in
  let d = trunc ("t=" ^ th ^ " in=" ^ gd ^ " out=" ^ outd) in
  (match simp_judge g (n_of_hex th) out with
   | None -> fail id "CORR" "simp_not_finite" d
   | Some v ->
     if not v.mv_spec then fail id "SPEC" "simplify_contract" d;
     if not v.mv_ct then fail id "SPEC" "simplify_type_kept" d;
     if v.mv_ambiguous then count "simp_ambiguous"
     else begin
       if revisit then count "simp_revisit_compared_with_model";
       if not v.mv_model then fail id "CORR" "simplify_model" d end);
  (match geom_to_Q g, f64_to_Q (n_of_hex th) with
   | Some gq, Some t ->
     let uses = List.map (fun l -> zero_chord_use t (line_vs l)) (geom_lines gq) in
     if List.exists fst uses then count "simp_zero_length_first_chord";
     if List.exists snd uses then count "simp_zero_length_later_chord"
   | _, _ -> ());
  (* the gate: an error, or a geometry the implementation's own Validate accepts *)
  let res = f.(6) and valid = f.(7) = "1" in
  if res = "OK" then begin
    count "simp_ok";
    if not valid then fail id "SPEC" "simplify_valid_or_error" d;
    if f.(8) <> "1" then fail id "SPEC" "simplify_novalidate_differs" d
  end else begin
    count "simp_err";
    if valid then fail id "SPEC" "simplify_spurious_error" d
  end

(* ---- INTP / EVEN ---- *)
let check_interp id name d (v : interp_verdict) =
  if not v.iv_finite then fail id "SPEC" (name ^ "_finite") d
  else begin
    if not v.iv_spec then fail id "SPEC" (name ^ "_on_line_at_fraction") d;
    if v.iv_near_break then count "interp_near_breakpoint"
    else if not v.iv_model then fail id "CORR" (name ^ "_model") d
  end

let do_intp id (f : string array) =
  let ld = f.(3) and fh = f.(4) and outd = f.(5) in
  let l = parse_dump ld in
  note_case ("INTP " ^ fh ^ " " ^ ld) (nontrivial_geom l);
  count ("interp_" ^ f.(2));
  let d = trunc ("f=" ^ fh ^ " line=" ^ ld ^ " out=" ^ outd) in
  if outd = "PANIC" then fail id "SPEC" "interp_panic" d
  else match interp_judge l (n_of_hex fh) (parse_dump outd) with
    | None -> fail id "CORR" "interp_not_finite" d
    | Some v -> check_interp id "interp" d v

let do_even id (f : string array) =
  let ld = f.(3) and n = int_of_string f.(4) and outd = f.(5) in
  let l = parse_dump ld in
  note_case ("EVEN " ^ f.(4) ^ " " ^ ld) (nontrivial_geom l && n > 0);
  count ("even_" ^ f.(2));
  let d = trunc ("n=" ^ f.(4) ^ " line=" ^ ld ^ " out=" ^ outd) in
  if outd = "PANIC" then fail id "SPEC" "even_panic" d
  else match even_judge l (z_of_int n) (parse_dump outd) with
    | None -> fail id "CORR" "even_not_finite" d
    | Some (okc, vs) ->
      if not okc then fail id "SPEC" "even_count" d;
      (try List.iter (fun v -> let before = !fails in check_interp id "even" d v; if !fails > before then raise Exit) vs
       with Exit -> ())

(* ---- SNAPG: SnapToGrid on whole geometries ---- *)
let do_snapg id (f : string array) =
  let gd = f.(3) and dp = int_of_string f.(4) and outd = f.(5) in
  let g = parse_dump gd and out = parse_dump outd in
  note_case ("SNAPG " ^ f.(4) ^ " " ^ gd) (nontrivial_geom g);
  count "snapg";
  let d = trunc ("dp=" ^ f.(4) ^ " in=" ^ gd ^ " out=" ^ outd) in
  match snapg_judge (z_of_int dp) g out with
  | None -> fail id "CORR" "snapg_not_finite" d
  | Some ((shape, zm), xy) ->
    if not shape then fail id "SPEC" "snap_geom_shape" d;
    if not zm then fail id "SPEC" "snap_geom_zm_untouched" d;
    if not xy then fail id "SPEC" "snap_geom_ordinates" d

let () =
  let path = Sys.argv.(1) in
  iter_lines path (fun line ->
      let f = split_tabs line in
      let id = f.(0) in
      incr cases;
      (try
         (match f.(1) with
          | "REV" -> do_rev id f
          | "SNAP" -> do_snap id f
          | "FORCE" -> do_force id f
          | "DENS" -> do_dens id f
          | "SIMP" -> do_simp id f
          | "INTP" -> do_intp id f
          | "EVEN" -> do_even id f
          | "SNAPG" -> do_snapg id f
          | op -> fail id "CORR" "unknown_op" op);
         sample f.(1) line
       with
       | Parse_error m -> fail id "CORR" "driver_parse" m
       | Invalid_argument m | Failure m -> fail id "CORR" "driver_error" m));
  finish ()
