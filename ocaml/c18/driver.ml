(* C18 correspondence driver: runs the extracted ExactEquals model on the harness's pairs and
   compares; evaluates the property's executable statements on the implementation's answers. *)
open Model
open Sfio

(* ---- the IsSimple oracle: observed on the implementation (IsSimple belongs to C03); next to it
   the exact simplicity computed by the harness with rationals, used by the executable statement
   of the IgnoreOrder sentence ("ring" there means closed and simple as a curve) ---- *)
let oracle_tbl : (string, bool) Hashtbl.t = Hashtbl.create 64
let exact_tbl : (string, bool) Hashtbl.t = Hashtbl.create 64
let oracle_panic = ref false
let load_oracle (s : string) =
  Hashtbl.reset oracle_tbl;
  Hashtbl.reset exact_tbl;
  oracle_panic := false;
  if s <> "" then
    List.iter (fun e ->
        let v = e.[0] and x = e.[1] in
        let key = String.sub e 3 (String.length e - 3) in
        if v = 'p' then oracle_panic := true;
        Hashtbl.replace oracle_tbl key (v = '1');
        Hashtbl.replace exact_tbl key (if x = '?' then v = '1' else x = '1'))
      (String.split_on_char ';' s)
let lookup tbl (l : n lineT) : bool =
  let key = dump_geom (GLine l) in
  match Hashtbl.find_opt tbl key with
  | Some b -> b
  | None -> failwith ("no IsSimple observation for " ^ key)
let simple = lookup oracle_tbl
let simple_exact = lookup exact_tbl

(* ---- canonical form under the order moves the property lists (independent of the model's
   matching algorithm): used as the executable statement of the IgnoreOrder sentence ---- *)
let sign_bit = n_of_hex "8000000000000000"
let nzv ct (v : n vtx) : n vtx =
  let z x = if x = sign_bit then N0 else x in
  { vx = z v.vx; vy = z v.vy;
    vz = (if ct_has_z ct then z v.vz else N0); vm = (if ct_has_m ct then z v.vm else N0) }

let rec rotations (op : 'a list) : 'a list list =
  (* all cyclic shifts of the open part *)
  let n = List.length op in
  let arr = Array.of_list op in
  List.init n (fun k -> List.init n (fun i -> arr.((i + k) mod n)))
and close (l : 'a list) : 'a list = match l with [] -> [] | x :: _ -> l @ [x]

let rec drop_last = function [] -> [] | [_] -> [] | x :: r -> x :: drop_last r

let min_list (l : 'a list) : 'a = List.fold_left (fun a b -> if compare b a < 0 then b else a) (List.hd l) (List.tl l)

let canon_line (l : n lineT) : n lineT =
  let MkLine (ct, vs) = l in
  let vs' = List.map (nzv ct) vs in
  let ring = is_closed feq_bits l && simple_exact l && ends_eq feq_bits (xy_eq_bits N0) l in
  let cands =
    if ring && List.length vs' >= 2 then
      let rots = List.map close (rotations (drop_last vs')) in
      rots @ List.map List.rev rots
    else [vs'; List.rev vs'] in
  MkLine (ct, min_list cands)

let canon_point (MkPoint (ct, c)) = MkPoint (ct, (match c with None -> None | Some v -> Some (nzv ct v)))
let canon_poly (MkPoly (ct, rs)) =
  match rs with
  | [] -> MkPoly (ct, [])
  | e :: holes -> MkPoly (ct, canon_line e :: List.sort compare (List.map canon_line holes))
let rec canon (g : n geomT) : n geomT =
  match g with
  | GPoint p -> GPoint (canon_point p)
  | GLine l -> GLine (canon_line l)
  | GPoly p -> GPoly (canon_poly p)
  | GMPoint (ct, ps) -> GMPoint (ct, List.sort compare (List.map canon_point ps))
  | GMLine (ct, ls) -> GMLine (ct, List.sort compare (List.map canon_line ls))
  | GMPoly (ct, ps) -> GMPoly (ct, List.sort compare (List.map canon_poly ps))
  | GColl (ct, gs) -> GColl (ct, List.sort compare (List.map canon gs))

let b2c b = if b then '1' else '0'

(* IsSimple is a floating-point predicate of the implementation; where it misjudges a closed line
   (observed when its cross products underflow or overflow: ordinates below about 1e-162 or above
   about 1e150), or judges a closed line and a rotation/reversal of it differently, the failures of
   the IgnoreOrder statements are reported under a separate check name (finding F51). *)
let issimple_misjudged (gs : n geomT list) : bool =
  let bad = ref false in
  let tbl = Hashtbl.create 16 in
  let line (l : n lineT) =
    if is_closed feq_bits l then begin
      if simple l <> simple_exact l then bad := true;
      (* the same closed curve (up to rotation/reversal/-0) judged differently *)
      let MkLine (ct, vs) = l in
      if ends_eq feq_bits (xy_eq_bits N0) l && List.length vs >= 2 then begin
        let vs' = List.map (nzv ct) vs in
        let rots = List.map close (rotations (drop_last vs')) in
        let key = (ct, min_list (rots @ List.map List.rev rots)) in
        let sv = simple l in
        match Hashtbl.find_opt tbl key with
        | Some s' -> if sv <> s' then bad := true
        | None -> Hashtbl.replace tbl key sv
      end
    end in
  let poly (MkPoly (_, rs)) = List.iter line rs in
  let rec go = function
    | GPoint _ | GMPoint _ -> ()
    | GLine l -> line l
    | GPoly p -> poly p
    | GMLine (_, ls) -> List.iter line ls
    | GMPoly (_, ps) -> List.iter poly ps
    | GColl (_, gs) -> List.iter go gs in
  List.iter go gs;
  !bad

(* number of rings (closed in every ordinate, simple in exact arithmetic) of the pair that list a
   control point twice in a row: the rotation search meets several positions at which the start
   vertex of the other ring occurs *)
let rings_with_repeated_vertex (gs : n geomT list) : int =
  let cnt = ref 0 in
  let line (l : n lineT) =
    let MkLine (ct, vs) = l in
    if List.length vs >= 2 && is_closed feq_bits l && ends_eq feq_bits (xy_eq_bits N0) l && simple_exact l then begin
      let vs' = List.map (nzv ct) vs in
      let rec rep = function a :: (b :: _ as r) -> a = b || rep r | _ -> false in
      if rep vs' then incr cnt
    end in
  let poly (MkPoly (_, rs)) = List.iter line rs in
  let rec go = function
    | GPoint _ | GMPoint _ -> ()
    | GLine l -> line l
    | GPoly p -> poly p
    | GMLine (_, ls) -> List.iter line ls
    | GMPoly (_, ps) -> List.iter poly ps
    | GColl (_, gs) -> List.iter go gs in
  List.iter go gs;
  !cnt

let samples = ref 0
let samples_rr = ref 0

let () =
  let path = Sys.argv.(1) in
  iter_lines path (fun line ->
      let f = split_tabs line in
      let id = f.(0) and cls = f.(1) in
      incr cases;
      let g = parse_dump f.(2) and h = parse_dump f.(3) in
      load_oracle f.(4);
      let tols = Array.of_list (String.split_on_char ',' f.(5)) in
      let obs = f.(6) in
      let wkbeq_go = f.(7) = "1" in
      let expect = f.(8) in
      note_case (f.(2) ^ "|" ^ f.(3)) (not (is_empty g && is_empty h));
      count ("class_" ^ cls);
      if String.contains obs 'p' then fail id "SPEC" "panic" ("ExactEquals panicked: obs=" ^ obs);
      if !oracle_panic then count "issimple_panicked";
      let finite = nan_free g && nan_free h in
      let misj = issimple_misjudged [g; h] in
      if misj then count "issimple_misjudged";
      if rings_with_repeated_vertex [g; h] > 0 then count "pairs_with_repeated_vertex_ring";
      (* failures of the IgnoreOrder statements: own check name when IsSimple misjudged a closed line *)
      let fail_io sub detail =
        if misj then fail id "SPEC" "ignore_order_issimple_misjudged" (sub ^ ": " ^ detail)
        else fail id "SPEC" sub detail in
      let consistent = cts_agree g && cts_agree h in
      if finite then count "nan_free" else count "has_nan";
      if not consistent then fail id "CORR" "cts_agree" "a built geometry carries different coordinate types at different nodes";
      let ob ti io k = obs.[(ti * 2 + (if io then 1 else 0)) * 4 + k] = '1' in
      let tolbits ti = if ti = 0 then N0 else n_of_hex tols.(ti) in
      let nt = Array.length tols in
      for ti = 0 to nt - 1 do
        List.iter (fun io ->
            let tb = tolbits ti in
            let tag = Printf.sprintf "tol=%s io=%b" tols.(ti) io in
            (* CORR: the four answers against the model *)
            let m = [| exact_equals simple tb io g h; exact_equals simple tb io h g;
                       exact_equals simple tb io g g; exact_equals simple tb io h h |] in
            for k = 0 to 3 do
              if m.(k) <> ob ti io k then
                fail id "CORR" (if ti = 0 then (if io then "ee_ignore_order" else "ee_plain") else (if io then "ee_tol_io" else "ee_tol"))
                  (Printf.sprintf "%s which=%d model=%c impl=%c" tag k (b2c m.(k)) (b2c (ob ti io k)))
            done;
            if m.(0) then count (if io then "model_true_io" else "model_true") else count (if io then "model_false_io" else "model_false");
            (* SPEC: symmetric; reflexive on NaN-free values *)
            if ob ti io 0 <> ob ti io 1 then
              (if io then fail_io else fail id "SPEC") "symmetry" (Printf.sprintf "%s ee(g,h)=%c ee(h,g)=%c" tag (b2c (ob ti io 0)) (b2c (ob ti io 1)));
            if finite && not (ob ti io 2 && ob ti io 3) then
              fail id "SPEC" "reflexivity" tag;
            (* SPEC: IgnoreOrder only adds identifications *)
            if io && ob ti false 0 && not (ob ti true 0) then
              fail id "SPEC" "ignore_order_weaker" tag)
          [false; true]
      done;
      (* SPEC, no options: equal exactly when the WKB encodings agree after -0 normalisation *)
      if finite then begin
        (* the model's own encoder (C04) on every third case: it dominates the running time *)
        if !cases mod 3 = 0 || ob 0 false 0 <> wkbeq_go then begin
          count "wkb_equal_by_model";
          let weq = wkb_equal g h in
          if weq <> wkbeq_go then fail id "CORR" "wkb_equal" (Printf.sprintf "model=%b impl=%b" weq wkbeq_go)
        end;
        if ob 0 false 0 <> wkbeq_go then
          fail id "SPEC" "plain_iff_wkb" (Printf.sprintf "ExactEquals=%b wkb_equal=%b" (ob 0 false 0) wkbeq_go);
        (* SPEC, IgnoreOrder: equal exactly when the canonical forms under the listed moves agree *)
        let ceq = compare (canon g) (canon h) = 0 in
        if ceq then count "canon_equal" else count "canon_differ";
        if ob 0 true 0 <> ceq then
          fail_io "ignore_order_iff_canon" (Printf.sprintf "ExactEquals=%b canonical_forms_equal=%b" (ob 0 true 0) ceq);
        (* SPEC, tolerance: vertex lists correspond within e; monotone in |e| *)
        for ti = 1 to nt - 1 do
          let ts = tol_spec (tolbits ti) g h in
          if ob ti false 0 <> ts then
            fail id "SPEC" "tolerance_spec" (Printf.sprintf "tol=%s ExactEquals=%b within=%b" tols.(ti) (ob ti false 0) ts);
          if ob 0 false 0 && not (ob ti false 0) then
            fail id "SPEC" "tolerance_weaker" (Printf.sprintf "tol=%s" tols.(ti));
          let mag t = Float.abs (Int64.float_of_bits (Int64.of_string ("0x" ^ tols.(t)))) in
          for tj = 1 to nt - 1 do
            List.iter (fun io ->
                if mag ti <= mag tj && ob ti io 0 && not (ob tj io 0) then
                  fail id "SPEC" "tolerance_monotone" (Printf.sprintf "tol=%s accepted, larger tol=%s rejected io=%b" tols.(ti) tols.(tj) io))
              [false; true]
          done
        done
      end;
      (* SPEC: what holds by construction of the pair *)
      let has s = try ignore (Str.search_forward (Str.regexp_string s) expect 0); true with Not_found -> false in
      if has "P1" && not (ob 0 false 0) then fail id "SPEC" "expected_equal" cls;
      if has "P0" && ob 0 false 0 then fail id "SPEC" "expected_unequal" cls;
      if has "I1" && not (ob 0 true 0) then fail_io "move_not_ignored" cls;
      if has "I0" && ob 0 true 0 then fail_io "more_than_order_ignored" cls;
      if has "T1" then
        for ti = 1 to nt - 1 do
          List.iter (fun io ->
              if not (ob ti io 0 && ob ti io 1) then
                fail id "SPEC" "expected_equal_under_tolerance" (Printf.sprintf "%s tol=%s io=%b" cls tols.(ti) io))
            [false; true]
        done;
      if has "T0" then
        for ti = 1 to nt - 1 do
          List.iter (fun io ->
              if ob ti io 0 || ob ti io 1 then
                fail id "SPEC" "expected_unequal_under_tolerance" (Printf.sprintf "%s tol=%s io=%b" cls tols.(ti) io))
            [false; true]
        done;
      (* U0: by construction (integer pre-image) some corresponding vertex pair is further apart
         than every listed tolerance, or differs in Z/M: false without IgnoreOrder, both orders *)
      if has "U0" then
        for ti = 1 to nt - 1 do
          if ob ti false 0 || ob ti false 1 then
            fail id "SPEC" "expected_unequal_under_tolerance" (Printf.sprintf "%s tol=%s io=false" cls tols.(ti))
        done;
      (* SPEC: no option makes values with different numbers of control points (or of empty points) equal *)
      let rec census (g : n geomT) : int * int =
        let pt (MkPoint (_, c)) = (match c with None -> (0, 1) | Some _ -> (1, 0)) in
        let ln (MkLine (_, vs)) = (List.length vs, 0) in
        let sum l = List.fold_left (fun (a, b) (c, d) -> (a + c, b + d)) (0, 0) l in
        let py (MkPoly (_, rs)) = sum (List.map ln rs) in
        match g with
        | GPoint p -> pt p
        | GLine l -> ln l
        | GPoly p -> py p
        | GMPoint (_, ps) -> sum (List.map pt ps)
        | GMLine (_, ls) -> sum (List.map ln ls)
        | GMPoly (_, ps) -> sum (List.map py ps)
        | GColl (_, gs) -> sum (List.map census gs) in
      if census g <> census h then
        for ti = 0 to nt - 1 do
          List.iter (fun io ->
              if ob ti io 0 || ob ti io 1 then
                fail id "SPEC" "control_point_census" (Printf.sprintf "equal under tol=%s io=%b although the numbers of control points / empty points differ" tols.(ti) io))
            [false; true]
        done;
      if !samples_rr < 2 && cls = "repeated_vertex_ring" && expect = "P0I1" then begin
        incr samples_rr;
        Printf.printf "SAMPLE\t%s %s G=[%s] H=[%s] obs=%s expect=%s\n" id cls (trunc f.(2)) (trunc f.(3)) obs expect
      end;
      if !samples < 4 && (cls = "one_move" || cls = "ulp") then begin
        incr samples;
        Printf.printf "SAMPLE\t%s %s G=[%s] H=[%s] obs=%s expect=%s\n" id cls (trunc f.(2)) (trunc f.(3)) obs expect
      end);
  finish ()
