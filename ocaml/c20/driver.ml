(* C20 correspondence driver: runs the extracted model of Model/Empty.v on the harness's lines.
   G lines: insertion / stripping / emptiness / dimension of the model against the harness and the
   implementation.  C lines: every call of the reflective enumeration is judged: no panic outside
   the documented classes, zero value = explicit empty, neutral answer table, transparency; H lines:
   the TWKB header options on geometries with empty members (bounding box transparent and truthful,
   size, ID list). *)
open Model
open Sfio

(* ---------------------------------------------------------------- integers *)
let z_of_int (i : int) : z = if i = 0 then Z0 else if i > 0 then Zpos (pos_of_int i) else Zneg (pos_of_int (-i))
let int_of_z = function Z0 -> 0 | Zpos p -> int_of_pos p | Zneg p -> - (int_of_pos p)

(* ---------------------------------------------------------------- integer dumps -> geomT Z *)
let parse_idump_tokens (toks : string list) : z geomT * string list =
  let cur = ref toks in
  let next () = match !cur with
    | [] -> raise (Parse_error "unexpected end of dump")
    | t :: r -> cur := r; t in
  let next_int () = try int_of_string (next ()) with Failure _ -> raise (Parse_error "not an integer") in
  let vtx ct =
    let x = z_of_int (next_int ()) in
    let y = z_of_int (next_int ()) in
    let z = if ct_has_z ct then z_of_int (next_int ()) else Z0 in
    let m = if ct_has_m ct then z_of_int (next_int ()) else Z0 in
    { vx = x; vy = y; vz = z; vm = m } in
  let point_body () =
    let ct = ct_of_int (next_int ()) in
    let full = next_int () in
    if full = 0 then MkPoint (ct, None) else MkPoint (ct, Some (vtx ct)) in
  let line_body () =
    let ct = ct_of_int (next_int ()) in
    let k = next_int () in
    MkLine (ct, List.init k (fun _ -> vtx ct)) in
  let expect tag = let t = next () in if t <> tag then raise (Parse_error ("expected " ^ tag ^ " got " ^ t)) in
  let poly_body () =
    let ct = ct_of_int (next_int ()) in
    let k = next_int () in
    MkPoly (ct, List.init k (fun _ -> expect "L"; line_body ())) in
  let rec geom () =
    match next () with
    | "P" -> GPoint (point_body ())
    | "L" -> GLine (line_body ())
    | "Y" -> GPoly (poly_body ())
    | "MP" -> let ct = ct_of_int (next_int ()) in let k = next_int () in
      GMPoint (ct, List.init k (fun _ -> expect "P"; point_body ()))
    | "ML" -> let ct = ct_of_int (next_int ()) in let k = next_int () in
      GMLine (ct, List.init k (fun _ -> expect "L"; line_body ()))
    | "MY" -> let ct = ct_of_int (next_int ()) in let k = next_int () in
      GMPoly (ct, List.init k (fun _ -> expect "Y"; poly_body ()))
    | "GC" -> let ct = ct_of_int (next_int ()) in let k = next_int () in
      GColl (ct, List.init k (fun _ -> geom ()))
    | t -> raise (Parse_error ("unknown tag " ^ t)) in
  let g = geom () in
  (g, !cur)

let parse_idump (s : string) : z geomT =
  let g, rest = parse_idump_tokens (tokens s) in
  if rest <> [] then raise (Parse_error "trailing tokens in dump");
  g

let idump (g : z geomT) : string =
  let b = Buffer.create 256 in
  let add s = Buffer.add_string b s; Buffer.add_char b ' ' in
  let addi i = add (string_of_int i) in
  let vtx ct v =
    addi (int_of_z v.vx); addi (int_of_z v.vy);
    if ct_has_z ct then addi (int_of_z v.vz);
    if ct_has_m ct then addi (int_of_z v.vm) in
  let point (MkPoint (ct, c)) =
    add "P"; addi (int_of_ct ct);
    (match c with None -> add "0" | Some v -> add "1"; vtx ct v) in
  let line (MkLine (ct, vs)) =
    add "L"; addi (int_of_ct ct); addi (List.length vs); List.iter (vtx ct) vs in
  let poly (MkPoly (ct, rs)) =
    add "Y"; addi (int_of_ct ct); addi (List.length rs); List.iter line rs in
  let hdr tag ct k = add tag; addi (int_of_ct ct); addi k in
  let rec geom = function
    | GPoint p -> point p
    | GLine l -> line l
    | GPoly p -> poly p
    | GMPoint (ct, ps) -> hdr "MP" ct (List.length ps); List.iter point ps
    | GMLine (ct, ls) -> hdr "ML" ct (List.length ls); List.iter line ls
    | GMPoly (ct, ps) -> hdr "MY" ct (List.length ps); List.iter poly ps
    | GColl (ct, gs) -> hdr "GC" ct (List.length gs); List.iter geom gs in
  geom g;
  String.trim (Buffer.contents b)

(* ---------------------------------------------------------------- plans *)
let parse_plan (s : string) : eplan =
  let cur = ref (tokens s) in
  let next () = match !cur with
    | [] -> raise (Parse_error "unexpected end of plan")
    | t :: r -> cur := r; t in
  let next_int () = int_of_string (next ()) in
  let rec shape () =
    match next () with
    | "Pt" -> EPt | "Ln" -> ELn | "Pg" -> EPg
    | "MPt" -> EMPt (nat_of_int (next_int ()))
    | "MLn" -> EMLn (nat_of_int (next_int ()))
    | "MPg" -> EMPg (nat_of_int (next_int ()))
    | "GC" -> let k = next_int () in EGC (List.init k (fun _ -> shape ()))
    | t -> raise (Parse_error ("unknown shape " ^ t)) in
  let rec plan () =
    (match next () with "EP" -> () | t -> raise (Parse_error ("expected EP got " ^ t)));
    let nh = next_int () in
    let here = List.init nh (fun _ -> let p = next_int () in let e = shape () in (nat_of_int p, e)) in
    let nk = next_int () in
    let kids = List.init nk (fun _ -> plan ()) in
    EP (here, kids) in
  let p = plan () in
  if !cur <> [] then raise (Parse_error "trailing tokens in plan");
  p

(* ---------------------------------------------------------------- tokens of the protocol *)
let op_of_string = function
  | "OIsEmpty" -> Some OIsEmpty | "ODimension" -> Some ODimension | "OEnvelope" -> Some OEnvelope
  | "OArea" -> Some OArea | "OLength" -> Some OLength | "OCentroid" -> Some OCentroid
  | "OConvexHull" -> Some OConvexHull | "OBoundary" -> Some OBoundary
  | "OPointOnSurface" -> Some OPointOnSurface | "OIsSimple" -> Some OIsSimple
  | "ODumpCoordinates" -> Some ODumpCoordinates | "OReverse" -> Some OReverse | "OForce2D" -> Some OForce2D
  | "OValidate" -> Some OValidate | "OMinAreaRect" -> Some OMinAreaRect | "OMinWidthRect" -> Some OMinWidthRect
  | "OUnaryUnion" -> Some OUnaryUnion | "OForceCW" -> Some OForceCW | "OForceCCW" -> Some OForceCCW
  | "OIsCW" -> Some OIsCW | "OIsCCW" -> Some OIsCCW | "OTransformXY" -> Some OTransformXY
  | "ODensify" -> Some ODensify | "OSimplify" -> Some OSimplify | "OSnapToGrid" -> Some OSnapToGrid | "OWKB" -> Some OWKB | "OWKT" -> Some OWKT | "OGeoJSON" -> Some OGeoJSON
  | "OTWKB" -> Some OTWKB | "OIntersects" -> Some OIntersects | "ODistance" -> Some ODistance
  | "ORelate" -> Some ORelate | "OExactEquals" -> Some OExactEquals | "OEquals" -> Some OEquals
  | "ODisjoint" -> Some ODisjoint | "OTouches" -> Some OTouches | "OContains" -> Some OContains
  | "OCovers" -> Some OCovers | "OWithin" -> Some OWithin | "OCoveredBy" -> Some OCoveredBy
  | "OCrosses" -> Some OCrosses | "OOverlaps" -> Some OOverlaps | "OUnion" -> Some OUnion
  | "OIntersection" -> Some OIntersection | "ODifference" -> Some ODifference | "OSymDiff" -> Some OSymDiff
  | _ -> None

let which_of_string = function
  | "WBoth" -> Some WBoth | "WLeft" -> Some WLeft | "WRight" -> Some WRight | _ -> None

let split_bar (s : string) : string list = String.split_on_char '|' s
let starts_with p s = String.length s >= String.length p && String.sub s 0 (String.length p) = p
let after p s = String.sub s (String.length p) (String.length s - String.length p)
let comp (l : string list) (i : int) : string = try List.nth l i with _ -> "<missing>"

let float_of_hex (h : string) : float = Int64.float_of_bits (Int64.of_string ("0x" ^ h))
let is_zero_hex h = h = "0000000000000000" || h = "8000000000000000"

(* a result geometry (hex dump); only geometries without coordinates can be read as integers *)
let parse_result_geom (c : string) : z geomT option =
  if not (starts_with "g:" c) then None
  else try Some (parse_idump (after "g:" c)) with _ -> None

let codes_to_matrix (l : nat list) : string =
  String.concat "" (List.map (fun d -> match int_of_nat d with 0 -> "F" | k -> string_of_int (k - 1)) l)

let is_coll_dump (d : string) = starts_with "GC" d

(* ---------------------------------------------------------------- the neutral answer table, evaluated *)
(* returns None when the observation agrees with the table, Some detail otherwise *)
let judge_neutral (op : opname) (w : which) (recv : string) (dumpA : string) (dumpB : string)
    (out1 : string) (cmp : string) : string option =
  let cs = split_bar out1 in
  let c0 = comp cs 0 in
  let err_ok = List.length cs < 2 || comp cs 1 = "e:nil" in
  let want what ok = if ok then None else Some (Printf.sprintf "want %s got %s" what out1) in
  let a () = parse_idump dumpA in
  match neutral op w with
  | ABool b ->
    if op = OIsSimple then begin
      (* type_geometry.go:IsSimple: (false,false) for a collection; the concrete types answer one bool *)
      if recv = "Geometry" then
        (if is_coll_dump dumpA then want "(false,false)" (out1 = "b:false|b:false")
         else want "(true,true)" (out1 = "b:true|b:true"))
      else want "true" (out1 = "b:true")
    end else
      want (Printf.sprintf "%b" b) (c0 = Printf.sprintf "b:%b" b && err_ok)
  | ABoolUndefined -> want "(false,false)" (out1 = "b:false|b:false")
  | ATypeDimension -> let d = int_of_nat (dimension (a ())) in want (Printf.sprintf "dimension %d" d) (out1 = Printf.sprintf "i:%d" d)
  | AEmptyEnvelope -> want "empty envelope" (out1 = "v:empty")
  | AZero -> want "0" (starts_with "f:" c0 && is_zero_hex (after "f:" c0))
  | AEmptyPoint ->
    (match parse_result_geom c0 with
     | Some (GPoint (MkPoint (_, None))) -> None
     | _ -> want "POINT EMPTY" false)
  | AEmptyGeometry ->
    (match parse_result_geom c0 with
     | Some g when is_empty g -> None
     | _ -> want "an empty geometry" false)
  | AEmptyCollection -> want "GEOMETRYCOLLECTION EMPTY" (c0 = "g:GC 0 0" && err_ok)
  | ASameForce2D -> let e = "g:" ^ idump (force_geom Z0 XY (a ())) in want e (c0 = e)
  | ASame -> let e = "g:" ^ idump (a ()) in want e (c0 = e && err_ok)
  | AEmptySequence ->
    (match String.split_on_char ':' c0 with
     | "q" :: _ :: "0" :: _ -> None
     | _ -> want "empty sequence" false)
  | ANoError -> want "nil error" (out1 = "e:nil")
  | AUndefined ->
    (match cs with
     | [f; "b:false"] when starts_with "f:" f && is_zero_hex (after "f:" f) -> None
     | _ -> want "(0,false)" false)
  | AMatrix m -> let s = codes_to_matrix m in want s (out1 = "s:" ^ s ^ "|e:nil")
  | AMatrixOfOther ->
    let s = codes_to_matrix (relate_empty_codes (a ()) (parse_idump dumpB)) in
    want s (out1 = "s:" ^ s ^ "|e:nil")
  | AUnaryUnionOfOther -> want "the self-union of the other operand" (cmp = "eq" && err_ok)
  | ARoundTrip | ANotApplicable -> None

(* decode(encode e) for an empty e: same type and empty; WKB and WKT return the value itself *)
let judge_codec (op : opname) (dumpA : string) (out1 : string) : string option =
  let cs = split_bar out1 in
  let c0 = comp cs 0 in
  if comp cs 1 <> "e:nil" then Some ("codec refuses the empty geometry: " ^ out1)
  else match op, parse_result_geom c0 with
    | (OWKB | OWKT), _ -> if c0 = "g:" ^ dumpA then None else Some ("want g:" ^ dumpA ^ " got " ^ c0)
    | _, Some g ->
      let a = parse_idump dumpA in
      if is_empty g && geom_type g = geom_type a then None else Some ("decoded value is not the empty geometry of the same type: " ^ c0)
    | _, None -> Some ("decoded value is not empty: " ^ c0)

(* ---------------------------------------------------------------- transparency of rendered values *)
let close_floats (x : float) (y : float) : bool =
  (x = y) || (Float.is_nan x && Float.is_nan y)
  || Float.abs (x -. y) <= 1e-9 *. Float.max 1.0 (Float.max (Float.abs x) (Float.abs y))

let hex_fields_close (a : string) (b : string) : bool =
  (* fields separated by , or : that are 16 hex digits are floats, everything else must be equal *)
  let split s = String.split_on_char ',' (String.concat "," (String.split_on_char ':' s)) in
  let fa = split a and fb = split b in
  List.length fa = List.length fb &&
  List.for_all2 (fun x y ->
      if x = y then true
      else if String.length x = 16 && String.length y = 16 then
        (try close_floats (float_of_hex x) (float_of_hex y) with _ -> false)
      else false) fa fb

let is_geom_component (c : string) = starts_with "g:" c || starts_with "l:[g:" c || c = "l:[]"

(* None = transparent; Some detail otherwise *)
let judge_transparent (out1 : string) (out2 : string) (cmp : string) : string option =
  let c1 = split_bar out1 and c2 = split_bar out2 in
  if List.length c1 <> List.length c2 then Some "different number of results"
  else begin
    let bad = ref None in
    List.iter2 (fun x y ->
        if !bad = None then begin
          if is_geom_component x && is_geom_component y then begin
            if x <> y && cmp <> "eq" then bad := Some ("geometry results differ beyond empty members: " ^ cmp)
          end else if x <> y then begin
            let tag s = if String.length s >= 2 then String.sub s 0 2 else s in
            if tag x = tag y && List.mem (tag x) ["f:"; "v:"; "q:"; "y:"] && hex_fields_close x y then ()
            else bad := Some (Printf.sprintf "with empties: %s / without: %s" (trunc x) (trunc y))
          end
        end) c1 c2;
    !bad
  end

(* ---------------------------------------------------------------- TWKB header lines (kind H) *)
let kv_of_obs (s : string) : (string * string) list =
  List.filter_map (fun f -> match String.index_opt f '=' with
      | Some i -> Some (String.sub f 0 i, String.sub f (i + 1) (String.length f - i - 1))
      | None -> None) (String.split_on_char ';' s)
let kv l k = try List.assoc k l with Not_found -> "<missing>"

(* the bounding box MarshalTWKB must announce for g (Model/TWKB.v: env_of (geom_pts g), the
   specification of C07), rendered as the harness renders UnmarshalTWKBEnvelope's answer *)
let expected_bbox (g : z geomT) : string =
  let ct = geom_ct g in
  let i = int_of_z in
  match twkb_bbox_z g with
  | None -> "none"
  | Some mm ->
    (match mm with
     | (x0, x1) :: (y0, y1) :: rest ->
       let xy = Printf.sprintf "xy:%d,%d,%d,%d" (i x0) (i y0) (i x1) (i y1) in
       let rng tag = function Some (a, b) -> Printf.sprintf "/%s:%d,%d" tag (i a) (i b) | None -> "/" ^ tag ^ ":-" in
       let z, rest = if ct_has_z ct then (match rest with r :: t -> Some r, t | [] -> None, []) else None, rest in
       let m = if ct_has_m ct then (match rest with r :: _ -> Some r | [] -> None) else None in
       xy ^ rng "z" z ^ rng "m" m
     | _ -> "malformed")

(* returns the list of (check name, detail) that fail *)
let judge_twkb_headers (argdesc : string) (dumpA : string) (dumpB : string) (out1 : string) (out2 : string)
  : (string * string * string) list =
  let has o = List.mem o (String.split_on_char ',' (String.sub argdesc 1 (String.length argdesc - 2))) in
  let o1 = kv_of_obs out1 and o2 = kv_of_obs out2 in
  let gi = parse_idump dumpA and gb = parse_idump dumpB in
  let bad = ref [] in
  let add kind name d = bad := (kind, name, d) :: !bad in
  if idump (strip_empties gi) <> dumpB then add "CORR" "twkb_base_is_strip" ("strip_empties of the first dump is " ^ idump (strip_empties gi));
  if kv o2 "m" <> "ok" then add "SPEC" "twkb_marshal" ("MarshalTWKB refuses the base geometry: " ^ out2)
  else if kv o1 "m" <> "ok" then begin
    (* finding F5 (C07): TWKB cannot carry an empty Point inside a non-empty MultiPoint - an error return *)
    if twkb_refuses gi then count "twkb_refused_empty_point_in_multipoint"
    else add "SPEC" "twkb_marshal" ("MarshalTWKB refuses the geometry with empty members: " ^ out1)
  end else begin
    count "twkb_headers_judged";
    (* transparency: the announced box (and the library's own envelope) cannot see empty members *)
    if kv o1 "bbox" <> kv o2 "bbox" then
      add "SPEC" "twkb_bbox_transparent" (Printf.sprintf "bbox header with empty members %s ; without %s" (kv o1 "bbox") (kv o2 "bbox"));
    if kv o1 "env" <> kv o2 "env" then
      add "SPEC" "twkb_bbox_transparent" (Printf.sprintf "Envelope() with empty members %s ; without %s" (kv o1 "env") (kv o2 "env"));
    List.iter (fun (o, g, what) ->
        let bb = kv o "bbox" in
        if has "bbox" then begin
          let want = expected_bbox g in
          if bb <> want then add "SPEC" "twkb_bbox_truthful" (Printf.sprintf "%s: bbox header %s ; min/max over the vertices %s" what bb want);
          let pre = "xy:" ^ kv o "env" ^ "/" in
          if not (starts_with pre bb) then add "SPEC" "twkb_bbox_equals_envelope" (Printf.sprintf "%s: bbox header %s ; Envelope() %s" what bb (kv o "env"))
        end else if bb <> "-" then add "SPEC" "twkb_bbox_truthful" (what ^ ": a bbox header that was not requested: " ^ bb);
        let sz = kv o "size" in
        if has "size" then begin
          if sz <> kv o "len" then add "SPEC" "twkb_size_truthful" (Printf.sprintf "%s: size header %s ; document has %s bytes" what sz (kv o "len"))
        end else if sz <> "-" then add "SPEC" "twkb_size_truthful" (what ^ ": a size header that was not requested: " ^ sz);
        let ids = kv o "ids" in
        if has "ids" then begin
          if ids <> kv o "given" then add "SPEC" "twkb_ids_truthful" (Printf.sprintf "%s: ID list read %s ; given %s" what ids (kv o "given"))
        end else if ids <> "-" then add "SPEC" "twkb_ids_truthful" (what ^ ": an ID list that was not given: " ^ ids);
        if kv o "rt" <> "eq" then add "SPEC" "twkb_payload" (Printf.sprintf "%s: decoded value differs from the base beyond empty members: %s" what (kv o "rt")))
      [ (o1, gi, "with empty members"); (o2, gb, "base") ]
  end;
  List.rev !bad

(* ---------------------------------------------------------------- main loop *)
let () =
  let path = Sys.argv.(1) in
  let samples = ref 0 in
  iter_lines path (fun line ->
      let f = split_tabs line in
      let id = f.(0) in
      incr cases;
      try
        match f.(1) with
        | "G" ->
          let cls = f.(2) in
          let base = parse_idump f.(3) in
          let plan = parse_plan f.(4) in
          let ins = parse_idump f.(5) in
          count ("G_" ^ cls);
          note_case f.(5) (not (is_empty ins));
          (* CORR: the model's insertion and stripping against the harness's *)
          let mi = idump (insert_empties base plan) in
          if mi <> f.(5) then fail id "CORR" "insert_empties" (trunc ("model=" ^ mi ^ " harness=" ^ f.(5)));
          let ms = idump (strip_empties ins) in
          if ms <> f.(3) then fail id "CORR" "strip_empties" (trunc ("model=" ^ ms ^ " harness=" ^ f.(3)));
          if not (no_empty_members base) then fail id "CORR" "base_has_empty_members" f.(3);
          (* CORR: emptiness and dimension of the model against the implementation *)
          let b2s b = if b then "true" else "false" in
          if b2s (is_empty ins) <> f.(6) then fail id "CORR" "is_empty" (Printf.sprintf "model=%b impl=%s" (is_empty ins) f.(6));
          if string_of_int (int_of_nat (dimension ins)) <> f.(7) then
            fail id "CORR" "dimension" (Printf.sprintf "model=%d impl=%s" (int_of_nat (dimension ins)) f.(7));
          if string_of_int (int_of_nat (dimension base)) <> f.(9) then
            fail id "CORR" "dimension_base" (Printf.sprintf "model=%d impl=%s" (int_of_nat (dimension base)) f.(9));
          (* SPEC: emptiness is transparent; the dimension that ignores empties is the base's *)
          if f.(6) <> f.(8) then fail id "SPEC" "is_empty_transparent" (Printf.sprintf "with=%s without=%s" f.(6) f.(8));
          if dimension_ie ins <> dimension_ie base then fail id "CORR" "dimension_ie_model" "model not transparent";
          (* CORR: the cited models (Envelope, Area) on the geometry with inserted members *)
          let menv = match env_z ins with
            | None -> "empty"
            | Some ((a, b), (c, d)) -> Printf.sprintf "%d %d %d %d" (int_of_z a) (int_of_z b) (int_of_z c) (int_of_z d) in
          if menv <> f.(10) then fail id "CORR" "envelope" (Printf.sprintf "model=%s impl=%s" menv f.(10));
          let a2 = area2_q ins in
          let ma = float_of_int (int_of_z a2.qnum) /. float_of_int (int_of_pos a2.qden) in
          (match float_of_string_opt f.(11) with
           | Some ia when Float.abs (ia -. ma) <= 1e-9 *. Float.max 1.0 (Float.abs ma) -> ()
           | _ -> fail id "CORR" "area" (Printf.sprintf "model 2A=%g impl 2A=%s" ma f.(11)));
          if !samples < 2 then begin incr samples; Printf.printf "SAMPLE\t%s\n" (trunc line) end
        | "C" ->
          let kind = f.(2) and recv = f.(3) and meth = f.(4) and ops = f.(5) and ws = f.(6) and tm = f.(7)
          and argdesc = f.(8) and dumpA = f.(9) and dumpB = f.(10) and out1 = f.(11) and out2 = f.(12) and cmp = f.(13) in
          count ("kind_" ^ kind);
          let where = Printf.sprintf "%s.%s%s on %s%s" recv meth argdesc dumpA (if dumpB = "-" then "" else " , " ^ dumpB) in
          let is_bang s = starts_with "!" s in
          if kind = "D" then begin
            count (if is_bang out1 then "documented_panic_seen" else "documented_class_no_panic")
          end else begin
            (* SPEC: total - no panic, no hang, outside the documented classes *)
            if is_bang out1 then fail id "SPEC" "panic" (trunc (where ^ " -> " ^ out1))
            else if is_bang out2 then fail id "SPEC" "panic" (trunc (where ^ " (on the reference value) -> " ^ out2))
            else begin
              note_case (recv ^ "." ^ meth ^ argdesc ^ dumpA ^ dumpB) true;
              match kind with
              | "Z" ->
                let same = (out1 = out2) in
                if not same then fail id "SPEC" "zero_value" (trunc (where ^ ": zero value -> " ^ out1 ^ " ; explicit empty -> " ^ out2))
              | "N" ->
                (match op_of_string ops, which_of_string ws with
                 | Some op, Some w ->
                   count "neutral_judged";
                   (match judge_neutral op w recv dumpA dumpB out1 cmp with
                    | None -> ()
                    | Some d -> fail id "SPEC" "neutral" (trunc (where ^ ": " ^ d)))
                 | _ -> fail id "CORR" "protocol" ("unknown op/which " ^ ops ^ " " ^ ws))
              | "K" ->
                (match op_of_string ops with
                 | Some op -> (match judge_codec op dumpA out1 with
                     | None -> ()
                     | Some d -> fail id "SPEC" "codec_accepts_empty" (trunc (where ^ ": " ^ d)))
                 | None -> fail id "CORR" "protocol" ("unknown op " ^ ops))
              | "T" ->
                if tm = "t" then begin
                  count "transparency_judged";
                  match judge_transparent out1 out2 cmp with
                  | None -> ()
                  | Some d -> fail id "SPEC" "transparent" (trunc (where ^ ": " ^ d))
                end else count "structure_dependent_not_compared"
              | "R" ->
                if out1 <> out2 then fail id "SPEC" "codec_roundtrip" (trunc (where ^ ": decoded " ^ out1 ^ " ; value " ^ out2))
              | "H" ->
                List.iter (fun (kind, name, d) -> fail id kind name (trunc (d ^ " :: " ^ where)))
                  (judge_twkb_headers argdesc dumpA dumpB out1 out2)
              | "U" -> count "unmodelled_surface_no_panic"
              | k -> fail id "CORR" "protocol" ("unknown kind " ^ k)
            end
          end
        | t -> fail id "CORR" "protocol" ("unknown line type " ^ t)
      with
      | Parse_error m -> fail id "CORR" "protocol" ("parse error: " ^ m)
      | Invalid_argument m -> fail id "CORR" "protocol" ("malformed line: " ^ m));
  finish ()
