(* Shared glue between the text protocol of the Go harness and the extracted Gallina types.
   Hand-written and trusted (see DESIGN.md, trusted base). Compiled once per property against that
   property's extracted [Model]. *)
open Model

let rec pos_of_int (i : int) : positive =
  if i = 1 then XH
  else if i land 1 = 0 then XO (pos_of_int (i lsr 1))
  else XI (pos_of_int (i lsr 1))

let n_of_int (i : int) : n = if i = 0 then N0 else Npos (pos_of_int i)

let rec int_of_pos = function
  | XH -> 1
  | XO p -> 2 * int_of_pos p
  | XI p -> 2 * int_of_pos p + 1

let int_of_n = function N0 -> 0 | Npos p -> int_of_pos p

let rec nat_of_int i = if i <= 0 then O else S (nat_of_int (i - 1))
let rec int_of_nat = function O -> 0 | S k -> 1 + int_of_nat k

let hexval c =
  match c with
  | '0' .. '9' -> Char.code c - 48
  | 'a' .. 'f' -> Char.code c - 87
  | 'A' .. 'F' -> Char.code c - 55
  | _ -> failwith "bad hex digit"

(* arbitrary-size hex -> N, built bit by bit from the most significant digit *)
let n_of_hex (s : string) : n =
  let acc = ref N0 in
  let shl4_add (a : n) (d : int) : n =
    (* a * 16 + d on the binary representation *)
    let rec bits p k d = if k = 0 then p else
        let b = (d lsr (k - 1)) land 1 in
        bits (if b = 1 then XI p else XO p) (k - 1) d in
    match a with
    | N0 -> n_of_int d
    | Npos p -> Npos (bits p 4 d) in
  String.iter (fun c -> acc := shl4_add !acc (hexval c)) s;
  !acc

(* N -> fixed-width lower-case hex *)
let hex_of_n (width : int) (v : n) : string =
  let buf = Bytes.make width '0' in
  let digits = "0123456789abcdef" in
  let rec bits p acc = match p with
    | XH -> List.rev (1 :: acc)
    | XO q -> bits q (0 :: acc)
    | XI q -> bits q (1 :: acc) in
  (* little-endian bit list *)
  let bl = match v with N0 -> [] | Npos p ->
    let rec le p = match p with XH -> [1] | XO q -> 0 :: le q | XI q -> 1 :: le q in
    ignore bits; le p in
  let arr = Array.of_list bl in
  let nb = Array.length arr in
  let ndig = (nb + 3) / 4 in
  if ndig > width then failwith "hex_of_n: value too wide";
  for d = 0 to ndig - 1 do
    let v = ref 0 in
    for b = 3 downto 0 do
      let i = 4 * d + b in
      v := 2 * !v + (if i < nb then arr.(i) else 0)
    done;
    Bytes.set buf (width - 1 - d) digits.[!v]
  done;
  Bytes.to_string buf

let bytes_of_hex (s : string) : n list =
  let len = String.length s / 2 in
  List.init len (fun i -> n_of_int (16 * hexval s.[2 * i] + hexval s.[2 * i + 1]))

let hex_of_bytes (bs : n list) : string =
  let b = Buffer.create 64 in
  List.iter (fun x -> Buffer.add_string b (Printf.sprintf "%02x" (int_of_n x))) bs;
  Buffer.contents b

let ct_of_int = function 0 -> XY | 1 -> XYZ | 2 -> XYM | 3 -> XYZM | _ -> failwith "bad ct"
let int_of_ct = function XY -> 0 | XYZ -> 1 | XYM -> 2 | XYZM -> 3
let ct_has_z = function XYZ | XYZM -> true | _ -> false
let ct_has_m = function XYM | XYZM -> true | _ -> false

(* ---- dump parser: prefix-notation tokens (harness lib/dump.go) -> geomT N ---- *)
exception Parse_error of string

let tokens (s : string) : string list =
  List.filter (fun t -> t <> "") (String.split_on_char ' ' s)

let parse_dump_tokens (toks : string list) : n geomT * string list =
  let cur = ref toks in
  let next () = match !cur with
    | [] -> raise (Parse_error "unexpected end of dump")
    | t :: r -> cur := r; t in
  let next_int () = int_of_string (next ()) in
  let vtx ct =
    let x = n_of_hex (next ()) in
    let y = n_of_hex (next ()) in
    let z = if ct_has_z ct then n_of_hex (next ()) else N0 in
    let m = if ct_has_m ct then n_of_hex (next ()) else N0 in
    { vx = x; vy = y; vz = z; vm = m } in
  let point_body () =
    let ct = ct_of_int (next_int ()) in
    let full = next_int () in
    if full = 0 then MkPoint (ct, None) else MkPoint (ct, Some (vtx ct)) in
  let line_body () =
    let ct = ct_of_int (next_int ()) in
    let k = next_int () in
    MkLine (ct, List.init k (fun _ -> vtx ct)) in
  let expect tag = let t = next () in if t <> tag then raise (Parse_error ("expected " ^ tag ^ " got " ^ t)) in
  let poly_body () =
    let ct = ct_of_int (next_int ()) in
    let k = next_int () in
    MkPoly (ct, List.init k (fun _ -> expect "L"; line_body ())) in
  let rec geom () =
    match next () with
    | "P" -> GPoint (point_body ())
    | "L" -> GLine (line_body ())
    | "Y" -> GPoly (poly_body ())
    | "MP" -> let ct = ct_of_int (next_int ()) in let k = next_int () in
      GMPoint (ct, List.init k (fun _ -> expect "P"; point_body ()))
    | "ML" -> let ct = ct_of_int (next_int ()) in let k = next_int () in
      GMLine (ct, List.init k (fun _ -> expect "L"; line_body ()))
    | "MY" -> let ct = ct_of_int (next_int ()) in let k = next_int () in
      GMPoly (ct, List.init k (fun _ -> expect "Y"; poly_body ()))
    | "GC" -> let ct = ct_of_int (next_int ()) in let k = next_int () in
      GColl (ct, List.init k (fun _ -> geom ()))
    | t -> raise (Parse_error ("unknown tag " ^ t)) in
  let g = geom () in
  (g, !cur)

let parse_dump (s : string) : n geomT =
  let g, rest = parse_dump_tokens (tokens s) in
  if rest <> [] then raise (Parse_error "trailing tokens in dump");
  g

(* ---- dump printer: geomT N -> the same token format ---- *)
let dump_geom (g : n geomT) : string =
  let b = Buffer.create 256 in
  let add s = Buffer.add_string b s; Buffer.add_char b ' ' in
  let vtx ct v =
    add (hex_of_n 16 v.vx); add (hex_of_n 16 v.vy);
    if ct_has_z ct then add (hex_of_n 16 v.vz);
    if ct_has_m ct then add (hex_of_n 16 v.vm) in
  let point (MkPoint (ct, c)) =
    add "P"; add (string_of_int (int_of_ct ct));
    (match c with None -> add "0" | Some v -> add "1"; vtx ct v) in
  let line (MkLine (ct, vs)) =
    add "L"; add (string_of_int (int_of_ct ct)); add (string_of_int (List.length vs));
    List.iter (vtx ct) vs in
  let poly (MkPoly (ct, rs)) =
    add "Y"; add (string_of_int (int_of_ct ct)); add (string_of_int (List.length rs));
    List.iter line rs in
  let hdr tag ct k = add tag; add (string_of_int (int_of_ct ct)); add (string_of_int k) in
  let rec geom = function
    | GPoint p -> point p
    | GLine l -> line l
    | GPoly p -> poly p
    | GMPoint (ct, ps) -> hdr "MP" ct (List.length ps); List.iter point ps
    | GMLine (ct, ls) -> hdr "ML" ct (List.length ls); List.iter line ls
    | GMPoly (ct, ps) -> hdr "MY" ct (List.length ps); List.iter poly ps
    | GColl (ct, gs) -> hdr "GC" ct (List.length gs); List.iter geom gs in
  geom g;
  String.trim (Buffer.contents b)

(* ---- case-file plumbing ---- *)
let split_tabs (s : string) : string array = Array.of_list (String.split_on_char '\t' s)

let fails = ref 0
let cases = ref 0
let counters : (string, int) Hashtbl.t = Hashtbl.create 32
let count key = Hashtbl.replace counters key (1 + (try Hashtbl.find counters key with Not_found -> 0))

(* distinct non-trivial cases: a key (the canonical input) is counted once, only when non-trivial *)
let seen : (string, unit) Hashtbl.t = Hashtbl.create 4096
let distinct_nontrivial = ref 0
let note_case (key : string) (nontrivial : bool) =
  if nontrivial && not (Hashtbl.mem seen key) then begin
    Hashtbl.replace seen key (); incr distinct_nontrivial end

(* FAIL <case id> <CORR|SPEC> <check name> <detail> *)
let fail id kind name detail =
  incr fails;
  Printf.printf "FAIL\t%s\t%s\t%s\t%s\n" id kind name detail

let trunc s = if String.length s > 300 then String.sub s 0 300 ^ "..." else s

let finish () =
  Printf.printf "STATS\tcases=%d\tfails=%d\tdistinct_nontrivial=%d" !cases !fails !distinct_nontrivial;
  Hashtbl.iter (fun k v -> Printf.printf "\t%s=%d" k v) counters;
  print_newline ()

let iter_lines (path : string) (f : string -> unit) : unit =
  let ic = open_in path in
  (try
     while true do
       let l = input_line ic in
       if String.length l > 0 && l.[0] <> '#' then f l
     done
   with End_of_file -> ());
  close_in ic
