#!/bin/bash
# tools/apply_fix.sh Fnn Cxx  - applies fixes/Fnn.patch to /repo as one "fix:" commit after the unedited suite passes,
# and records it as fixed in known_findings.json
set -e
F=$1; P=$2
export GOFLAGS=-mod=mod GOPROXY=off GOSUMDB=off GOTOOLCHAIN=local
cd /repo
test -z "$(git status --porcelain)" || { echo "/repo not clean"; exit 2; }
git apply --check /verif/fixes/$F.patch
git apply /verif/fixes/$F.patch
if ! go test -vet=off -count=1 ./carto/... ./geom/... ./rtree/... ./internal/cartodemo/... > /tmp/fix_$F.log 2>&1; then
  tail -30 /tmp/fix_$F.log; git checkout -- .; git clean -fdq; echo "SUITE FAILS with $F"; exit 1
fi
git add -A
git commit -q -F /verif/fixes/$F.msg
SHA=$(git rev-parse --short HEAD)
python3 - "$F" "$P" "$SHA" <<'PY'
import json,sys,os
f,p,sha=sys.argv[1:4]
path='/verif/known_findings.json'
d=json.load(open(path)) if os.path.exists(path) else {"findings":[]}
what=open('/verif/fixes/%s.msg'%f).readline().strip()
d["findings"]=[x for x in d["findings"] if not (x.get("id")==f and x.get("status")=="fixed")]
d["findings"].append({"id":f,"property":p,"status":"fixed","commit":sha,"what":what,"line":"fixed: property=%s %s %s"%(p,sha,what)})
json.dump(d,open(path,'w'),indent=1)
PY
echo "applied $F as $SHA"
