#!/usr/bin/env python3
"""Race-detector run of C08's concurrent decoding phase (speaks the FAIL/STATS/SAMPLE protocol).

  tools/c08_race.py --seed S --tier quick|thorough --build DIR

The harness command harness/cmd/c08 is built with `go build -race` (CGO_ENABLED=1) against
$VERIF_REPO and run in its concurrent child mode (-conc mixed: 12 goroutines decoding streams of
WKT / GeoJSON / WKB / TWKB documents in many distinct spellings, with and without validation).
Every WARNING: DATA RACE block whose stack touches the library is a SPEC failure (a data race in
a decoder is a latent process abort: "concurrent map writes" is a runtime throw); a crash of the
run is a SPEC failure as well. An exploration of the runtime behaviour, not a proof.
"""
import argparse, glob, os, re, shutil, subprocess, sys, time

VERIF = os.path.dirname(os.path.dirname(os.path.abspath(__file__)))
REPO = os.environ.get("VERIF_REPO", "/repo")


def main():
    ap = argparse.ArgumentParser()
    ap.add_argument("--seed", default="1")
    ap.add_argument("--tier", default="quick")
    ap.add_argument("--build", default=os.path.join(VERIF, "build"))
    a = ap.parse_args()
    build = a.build
    cases = os.path.join(build, "C08_c08.cases")
    if os.path.exists(cases) and "#GEN\t" not in open(cases, errors="replace").read()[-4000000:]:
        print("SAMPLE\treplay mode: race-detector run skipped")
        return 0
    env = dict(os.environ, GOFLAGS="-mod=mod", GOPROXY="off", GOSUMDB="off", GOTOOLCHAIN="local", CGO_ENABLED="1")
    hd = os.path.join(build, "harness_c08race")
    shutil.rmtree(hd, ignore_errors=True)
    shutil.copytree(os.path.join(VERIF, "harness"), hd)
    gm = open(os.path.join(hd, "go.mod")).read().replace("=> /repo", "=> " + REPO)
    open(os.path.join(hd, "go.mod"), "w").write(gm)
    shutil.copy(os.path.join(REPO, "go.sum"), os.path.join(hd, "go.sum"))
    os.makedirs(os.path.join(build, "bin"), exist_ok=True)
    rbin = os.path.join(build, "bin", "c08race")
    t0 = time.time()
    p = subprocess.run(["go", "build", "-race", "-tags", "verif", "-o", rbin, "./cmd/c08"], cwd=hd, env=env,
                       stdout=subprocess.PIPE, stderr=subprocess.STDOUT, timeout=1800)
    if p.returncode != 0:
        print("race build failed: " + p.stdout.decode("utf-8", "replace")[-1500:], file=sys.stderr)
        return 1
    tb = time.time() - t0
    logbase = os.path.join(build, "c08race.log")
    for f in glob.glob(logbase + ".*"):
        os.remove(f)
    formats = ["mixed"] if a.tier != "thorough" else ["wkt", "json", "wkb", "twkb", "mixed"]
    docs = "500" if a.tier != "thorough" else "4000"
    env["GORACE"] = "halt_on_error=0 log_path=%s history_size=3" % logbase
    res = os.path.join(build, "c08race.res")
    t0 = time.time()
    for f in formats:
        p = subprocess.run([rbin, "-conc", f, "-seed", a.seed, "-concdocs", docs, "-res", res], cwd=build, env=env,
                           stdout=subprocess.PIPE, stderr=subprocess.STDOUT, timeout=3000)
        out = p.stdout.decode("utf-8", "replace")
        # exit status 66 is the race detector's; any other non-zero status is a crash of the implementation
        if p.returncode not in (0, 66):
            reason = [l for l in out.splitlines() if l.startswith(("fatal error:", "panic:", "runtime:"))]
            print("FAIL\trace-%s\tSPEC\tprocess_death\tfmt=%s CONCURRENT (race build) %s" % (
                f, f, (reason[0] if reason else out[-400:]).replace("\n", " ").replace("\t", " ")))
        elif os.path.exists(res):
            line = open(res, errors="replace").read().strip()
            if line and not line.startswith("panics=0"):
                print("FAIL\trace-%s\tSPEC\tpanic\tfmt=%s CONCURRENT (race build) %s" % (f, f, line.replace("\t", " ")[:400]))
    races = []
    for f in sorted(glob.glob(logbase + ".*")):
        txt = open(f, errors="replace").read()
        for blk in txt.split("=================="):
            if "DATA RACE" in blk and "peterstace/simplefeatures" in blk:
                races.append(blk)
    seen = set()
    for k, blk in enumerate(races):
        frames = re.findall(r"^\s+(github\.com/peterstace/simplefeatures/\S+?)\(\)\s*\n\s+(\S+?):(\d+)", blk, flags=re.M)
        key = " <- ".join("%s@%s:%s" % (fn.split("/")[-1], os.path.basename(fl), ln) for fn, fl, ln in frames[:5]) or blk.strip()[:300].replace("\n", " ")
        if key in seen:
            continue
        seen.add(key)
        if len(seen) <= 5:
            print("FAIL\trace-report-%d\tSPEC\tdata_race\tseed=%s 12 goroutines decoding concurrently, race detector: %s" % (k, a.seed, key.replace("\t", " ")))
    print("STATS\trace_reports=%d\trace_distinct=%d" % (len(races), len(seen)))
    print("SAMPLE\trace detector: concurrent decoding phase (%s, 12 goroutines x %s documents) in a -race binary: %d reports (build %.1fs, run %.1fs)" % (
        "+".join(formats), docs, len(races), tb, time.time() - t0))
    return 0


if __name__ == "__main__":
    sys.exit(main())
