#!/usr/bin/env python3
"""Runtime exploration for property C10 (speaks the FAIL/STATS/SAMPLE protocol of tools/check.py).

  tools/c10_run.py --seed S --tier quick|thorough --build DIR

1. Fresh-process repetition: the history harness (build/bin/c10, built by check.py just before)
   is run a second time with identical arguments; Go seeds its map iteration per process, so the two
   case files (which hold a digest of every result of every call) must be byte-identical.
2. Race detector: the harness command is built again with `go build -race` (CGO_ENABLED=1) against
   $VERIF_REPO and run in -mode race: the same pools and calls from 2..16 goroutines sharing the
   operands. Every WARNING: DATA RACE block of the detector, every result that differs from the
   sequential one and every changed operand is a SPEC failure.
These are explorations of the runtime behaviour, not proofs.
"""
import argparse, json, os, re, shutil, subprocess, sys, glob, time

VERIF = os.path.dirname(os.path.dirname(os.path.abspath(__file__)))
REPO = os.environ.get("VERIF_REPO", "/repo")


def main():
    ap = argparse.ArgumentParser()
    ap.add_argument("--seed", default="1")
    ap.add_argument("--tier", default="quick")
    ap.add_argument("--build", default=os.path.join(VERIF, "build"))
    a = ap.parse_args()
    build = a.build
    prop = json.load(open(os.path.join(VERIF, "props", "C10.json")))
    h = prop["harness"][0]
    n = h.get("n_" + a.tier, h.get("n_quick", 100))
    env = dict(os.environ, GOFLAGS="-mod=mod", GOPROXY="off", GOSUMDB="off", GOTOOLCHAIN="local")
    rc_total = 0

    # ---------------- 1. fresh process
    first = os.path.join(build, "C10_c10.cases")
    second = os.path.join(build, "C10_c10.second")
    binp = os.path.join(build, "bin", "c10")
    if os.path.exists(first) and "#GEN\t" not in open(first, errors="replace").read():
        # check.py --replay wrote the recorded case lines only: nothing to compare or to race
        print("SAMPLE\treplay mode: runtime exploration skipped")
        sys.exit(0)
    if os.path.exists(binp) and os.path.exists(first):
        t0 = time.time()
        p = subprocess.run([binp, "-seed", a.seed, "-n", str(n), "-tier", a.tier, "-out", second] + h.get("args", []),
                           cwd=build, env=env, stdout=subprocess.PIPE, stderr=subprocess.STDOUT, timeout=3000)
        if p.returncode != 0:
            print("FAIL\tfresh\tSPEC\tharness_crash_second_process\t%s" % p.stdout.decode("utf-8", "replace")[-600:].replace("\n", " ").replace("\t", " "))
        else:
            l1 = open(first, errors="replace").read().split("\n")
            l2 = open(second, errors="replace").read().split("\n")
            diffs = 0
            for x, y in zip(l1, l2):
                if x != y:
                    diffs += 1
                    if diffs <= 3:
                        fx, fy = x.split("\t"), y.split("\t")
                        what = "?"
                        if len(fx) > 4 and len(fy) > 4:
                            ex, ey = fx[4].split(" "), fy[4].split(" ")
                            for u, v in zip(ex, ey):
                                if u != v:
                                    what = "event %s (process 1) vs %s (process 2)" % (u, v)
                                    break
                        print("FAIL\tfresh-%s\tSPEC\tcross_process_result_differs\tseed=%s case=%s pool=%s :: %s" % (
                            fx[0], a.seed, fx[0], (fx[2] if len(fx) > 2 else "")[:300], what))
            if len(l1) != len(l2):
                diffs += 1
                print("FAIL\tfresh\tSPEC\tcross_process_result_differs\tcase files have different length")
            print("STATS\tfresh_process_histories=%d\tfresh_process_diffs=%d" % (max(len(l1) - 2, 0), diffs))
            print("SAMPLE\tfresh process: second run of %d histories compared byte for byte with the first (%.1fs)" % (n, time.time() - t0))
    else:
        print("harness binary or first case file missing: " + binp, file=sys.stderr)
        rc_total = 1

    # ---------------- 2. race build and run
    hd = os.path.join(build, "harness_c10race")
    shutil.rmtree(hd, ignore_errors=True)
    shutil.copytree(os.path.join(VERIF, "harness"), hd)
    gm = open(os.path.join(hd, "go.mod")).read().replace("=> /repo", "=> " + REPO)
    open(os.path.join(hd, "go.mod"), "w").write(gm)
    shutil.copy(os.path.join(REPO, "go.sum"), os.path.join(hd, "go.sum"))
    rbin = os.path.join(build, "bin", "c10race")
    renv = dict(env, CGO_ENABLED="1")
    p = subprocess.run(["go", "build", "-race", "-tags", "verif", "-o", rbin, "./cmd/c10"], cwd=hd, env=renv,
                       stdout=subprocess.PIPE, stderr=subprocess.STDOUT, timeout=1800)
    if p.returncode != 0:
        print("race build failed: " + p.stdout.decode("utf-8", "replace")[-1500:], file=sys.stderr)
        sys.exit(1)
    logbase = os.path.join(build, "c10race.log")
    for f in glob.glob(logbase + ".*"):
        os.remove(f)
    nr = 60 if a.tier != "thorough" else 600
    renv["GORACE"] = "halt_on_error=0 log_path=%s history_size=3" % logbase
    t0 = time.time()
    p = subprocess.run([rbin, "-mode", "race", "-seed", a.seed, "-n", str(nr), "-tier", a.tier], cwd=build, env=renv,
                       stdout=subprocess.PIPE, stderr=subprocess.STDOUT, timeout=3000)
    out = p.stdout.decode("utf-8", "replace")
    for line in out.splitlines():
        if line.startswith(("FAIL\t", "STATS\t", "SAMPLE\t")):
            print(line)
    races = []
    for f in sorted(glob.glob(logbase + ".*")):
        txt = open(f, errors="replace").read()
        for blk in txt.split("=================="):
            if "DATA RACE" in blk:
                races.append(blk)
    seen = set()
    for k, blk in enumerate(races):
        frames = re.findall(r"^\s+(github\.com/peterstace/simplefeatures/\S+?)\(\)\s*\n\s+(\S+?):(\d+)", blk, flags=re.M)
        key = " <- ".join("%s@%s:%s" % (fn.split("/")[-1], os.path.basename(fl), ln) for fn, fl, ln in frames[:6]) or blk.strip()[:300].replace("\n", " ")
        if key in seen:
            continue
        seen.add(key)
        if len(seen) <= 5:
            print("FAIL\trace-report-%d\tSPEC\tdata_race\tseed=%s goroutines=2..16 race detector: %s" % (k, a.seed, key.replace("\t", " ")))
    # exit status 66 is the race detector's; any other non-zero status is a crash of the implementation
    if p.returncode not in (0, 66):
        print("FAIL\trace\tSPEC\tharness_crash_concurrent\t%s" % out[-600:].replace("\n", " ").replace("\t", " "))
    print("STATS\trace_reports=%d\trace_distinct=%d" % (len(races), len(seen)))
    print("SAMPLE\trace detector: %d histories run from 2..16 goroutines in a -race binary, %d reports (%.1fs)" % (nr, len(races), time.time() - t0))
    sys.exit(rc_total)


if __name__ == "__main__":
    main()
