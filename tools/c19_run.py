#!/usr/bin/env python3
"""Correspondence runner of property C19 (real-number path, DESIGN.md 2.3).

  tools/c19_run.py --cases build/C19_c19.cases --build build [--jobs 8] [--shard 40]

Input: the case file written by harness/cmd/c19 (one evaluation of Forward/Reverse per line, float64
bit patterns, plus the `FAIL <id> SPEC ...` lines of the checks done on the Go side).
For every flagged case four Coq goals are generated,
    Rabs (<proj>_fwd_x cfg lon lat - x_go) <= 1e-9 * scale      (same for y)
    Rabs (<proj>_rev_lon cfg x_go y_go - lon_go) <= 1e-9        (same for lat; degrees)
with every float64 written as an exact rational, and closed by interval arithmetic (`c19_solve` of
coq/Proofs/Carto_base.v).  The goal files are compiled by parallel `coqc` processes, each under
`timeout`.  Output: the FAIL/STATS/SAMPLE protocol of tools/check.py.
"""
import argparse, decimal, math, os, re, struct, subprocess, sys, time
from concurrent.futures import ThreadPoolExecutor
from fractions import Fraction

VERIF = os.path.dirname(os.path.dirname(os.path.abspath(__file__)))
COQ = os.path.join(VERIF, "coq")

CFG = {"er": "Build_er_cfg", "sn": "Build_sn_cfg", "lc": "Build_lc_cfg", "wm": "Build_wm_cfg",
       "lcc": "Build_cn_cfg", "alb": "Build_cn_cfg", "eqdc": "Build_cn_cfg",
       "azeq": "Build_az_cfg", "or": "Build_az_cfg"}


def f64(h):
    return struct.unpack(">d", bytes.fromhex(h))[0]


def rterm(x):
    """exact Coq term of a finite float64"""
    fr = Fraction(x)
    if fr.denominator == 1:
        return "(%d)" % fr.numerator
    return "(%d / %d)" % (fr.numerator, fr.denominator)


_DCTX = decimal.Context(prec=70)
_PI = decimal.Decimal("3.14159265358979323846264338327950288419716939937510582097494459230781640628620899862803")


def _dsincos(x):
    """(sin x, cos x) of a Decimal |x| < 8 by the Taylor series, about 60 correct digits"""
    c = _DCTX
    s, t, term, n = decimal.Decimal(0), decimal.Decimal(1), decimal.Decimal(1), 0
    tiny = decimal.Decimal(10) ** -68
    # term = x^n / n!
    while True:
        n += 1
        term = c.divide(c.multiply(term, x), decimal.Decimal(n))
        if n % 4 == 1:
            s = c.add(s, term)
        elif n % 4 == 2:
            t = c.subtract(t, term)
        elif n % 4 == 3:
            s = c.subtract(s, term)
        else:
            t = c.add(t, term)
        if abs(term) < tiny and n > 8:
            return s, t


def _drad(fr):
    c = _DCTX
    return c.divide(c.multiply(c.divide(decimal.Decimal(fr.numerator), decimal.Decimal(fr.denominator)), _PI),
                    decimal.Decimal(180))


def direction_cosine_is_zero(lon0, lat0, lon, lat):
    """A = cos(lat) sin(dlon) or B = cos(lat0) sin(lat) - sin(lat0) cos(lat) cos(dlon) is 0 over the reals"""
    c = _DCTX
    dl = Fraction(lon) - Fraction(lon0)          # exact
    if dl % 180 == 0:                            # A = 0 off the central meridian (|lat| < 90 on the domain)
        return True
    if abs(Fraction(lat0)) == 90 and dl % 90 == 0:
        return True
    if lat0 == 0 and lat == 0:
        return True
    s0, c0 = _dsincos(_drad(Fraction(lat0)))
    s1, c1 = _dsincos(_drad(Fraction(lat)))
    dlm = dl % 360
    if dlm > 180:
        dlm -= 360
    sd, cd = _dsincos(_drad(dlm))
    A = c.multiply(c1, sd)
    B = c.subtract(c.multiply(c0, s1), c.multiply(c.multiply(s0, c1), cd))
    return min(abs(A), abs(B)) < decimal.Decimal(10) ** -40


def goals_of_case(f):
    """f: fields of a flagged case line -> list of (name, statement, script)"""
    cid, kind, cls = f[0], f[1], f[2]
    cfgv = [f64(h) for h in f[4].split(",")]
    lon, lat, x, y, rlon, rlat = [f64(h) for h in f[5:11]]
    if kind == "wm":
        cfg = "(Build_wm_cfg %d%%nat)" % int(cfgv[0])
        scale = "(%d)" % (2 ** int(cfgv[0]))
    else:
        cfg = "(%s %s)" % (CFG[kind], " ".join(rterm(v) for v in cfgv))
        scale = rterm(cfgv[0])
    L, P, X, Y, RL, RP = [rterm(v) for v in (lon, lat, x, y, rlon, rlat)]
    epsf = "(%s / 1000000000)" % scale
    epsd = "(1 / 1000000000)"
    az = kind in ("azeq", "or")
    centre_in = az and lon == cfgv[1] and lat == cfgv[2]
    centre_out = az and x == 0 and y == 0
    out = []
    if kind == "azeq" and not centre_in and lon != cfgv[1]:
        # atan2(A, B) of Forward: a direction cosine that is exactly 0 over the reals (pole as centre and
        # a longitude difference of 90 or 180 degrees) cannot be given a sign by interval arithmetic.
        # Decided on the exact rational inputs with 60 significant digits (a direction cosine that is
        # merely small, next to the centre or next to such a meridian, is not degenerate).
        if direction_cosine_is_zero(cfgv[1], cfgv[2], lon, lat):
            return None
    for comp, val in (("fwd_x", X), ("fwd_y", Y)):
        stmt = "Rabs (%s_%s %s %s %s - %s) <= %s" % (kind, comp, cfg, L, P, val, epsf)
        script = "c19_solve."
        if kind == "azeq" and centre_in:
            script = "replace (%s_%s %s %s %s) with 0 by (symmetry; exact (%s_%s_centre %s)); c19_ival." % (
                kind, comp, cfg, L, P, kind, comp, cfg)
        out.append((comp, stmt, script))
    for comp, val in (("rev_lon", RL), ("rev_lat", RP)):
        stmt = "Rabs (%s_%s %s %s %s - %s) <= %s" % (kind, comp, cfg, X, Y, val, epsd)
        script = "c19_solve."
        if az and centre_out:
            script = "rewrite %s_%s_centre; c19_centre." % (kind, comp)
        elif az:
            script = "c19_off %s_%s_off." % (kind, comp)
        out.append((comp, stmt, script))
    return [("%s_%s_%s" % (kind, comp, cid), stmt, script) for comp, stmt, script in out]


HEADER = """From Coq Require Import Reals Lra.
From Interval Require Import Tactic.
From SF Require Import Model.Carto Proofs.Carto_base.
Local Open Scope R_scope.
"""


def write_shard(path, goals, diagnostic):
    with open(path, "w") as o:
        o.write(HEADER)
        for name, stmt, script in goals:
            if diagnostic:
                o.write('Goal %s.\nProof. tryif (solve [%s]) then idtac "C19OK %s" else idtac "C19BAD %s". Abort.\n'
                        % (stmt, script.rstrip("."), name, name))
            else:
                o.write("Lemma g_%s : %s.\nProof. %s Qed.\n" % (name, stmt, script))


def coqc(path, tmo):
    t0 = time.time()
    try:
        p = subprocess.run(["timeout", str(tmo), "coqc", "-Q", COQ, "SF", "-w", "-all", path],
                           stdout=subprocess.PIPE, stderr=subprocess.STDOUT, cwd=os.path.dirname(path))
        return p.returncode, p.stdout.decode("utf-8", "replace"), time.time() - t0
    except Exception as e:  # noqa
        return 99, str(e), time.time() - t0


def run_shard(args):
    idx, goals, d, tmo = args
    path = os.path.join(d, "c19_cases_%03d.v" % idx)
    write_shard(path, goals, False)
    rc, out, dt = coqc(path, tmo)
    if rc == 0:
        return idx, [], dt, ""
    # some goal does not check: find out which (every goal is tried, none is kept)
    dpath = os.path.join(d, "c19_diag_%03d.v" % idx)
    write_shard(dpath, goals, True)
    rc2, out2, dt2 = coqc(dpath, tmo * 2)
    bad = re.findall(r"C19BAD (\S+)", out2)
    ok = re.findall(r"C19OK (\S+)", out2)
    if not bad:
        seen = set(ok)
        bad = [g[0] for g in goals if g[0] not in seen][:1] or ["shard_%d" % idx]
        return idx, bad, dt + dt2, "shard %d: coqc rc=%d/%d: %s" % (idx, rc, rc2, (out + out2)[-600:])
    return idx, bad, dt + dt2, ""


def main():
    ap = argparse.ArgumentParser()
    ap.add_argument("--cases", required=True)
    ap.add_argument("--build", required=True)
    ap.add_argument("--jobs", type=int, default=8)
    ap.add_argument("--shard", type=int, default=45, help="goals per generated file")
    ap.add_argument("--timeout", type=int, default=900)
    a = ap.parse_args()
    t0 = time.time()
    d = os.path.join(a.build, "c19")
    os.makedirs(d, exist_ok=True)
    for f in os.listdir(d):
        if f.startswith("c19_"):
            os.remove(os.path.join(d, f))
    ncases, fails, distinct, goals, desc, per_kind, degenerate = 0, 0, set(), [], {}, {}, 0
    samples = []
    with open(a.cases, errors="replace") as cf:
        for line in cf:
            line = line.rstrip("\n")
            if not line or line.startswith("#"):
                continue
            f = line.split("\t")
            if f[0] == "FAIL":
                print(line)
                fails += 1
                continue
            if len(f) < 12:
                continue
            ncases += 1
            per_kind[f[1]] = per_kind.get(f[1], 0) + 1
            if f[2] != "centre":
                distinct.add((f[1], f[4], f[5], f[6]))
            if f[3] == "1":
                try:
                    gs = goals_of_case(f)
                except Exception as e:  # non-finite value in a flagged case: the Go side already reported it
                    print("FAIL\t%s\tCORR\tgoal_generation\t%s %s" % (f[0], e, f[11]))
                    fails += 1
                    continue
                if gs is None:
                    degenerate += 1
                    continue
                for g in gs:
                    desc[g[0]] = (f[0], f[11])
                goals += gs
                if len(samples) < 4 and f[2] in ("rand", "stdpar"):
                    samples.append(f[11])
    # shards: consecutive goals go to different files so that projections are spread evenly
    per_round = max(1, a.jobs) * a.shard
    nshards = max(1, a.jobs) * max(1, (len(goals) + per_round - 1) // per_round)   # whole rounds of parallel coqc
    nshards = max(1, min(nshards, len(goals)))
    # the four goals of a case come in a fixed order (the reverse-latitude goals are the expensive ones):
    # rotate the assignment so that every file gets the same mix
    shards = [[] for _ in range(nshards)]
    for i, g in enumerate(goals):
        shards[(i + i // nshards) % nshards].append(g)
    bad_total, slow, notes = 0, 0.0, []
    with ThreadPoolExecutor(max_workers=max(1, a.jobs)) as ex:
        for idx, bad, dt, note in ex.map(run_shard, [(i, s, d, a.timeout) for i, s in enumerate(shards) if s]):
            slow = max(slow, dt)
            if note:
                notes.append(note)
            for name in bad:
                cid, dsc = desc.get(name, ("shard", name))
                m = re.match(r"([a-z]+)_((?:fwd|rev)_[a-z]+)_", name)
                chk = "model_%s_%s" % (m.group(1), m.group(2)) if m else "model_goal"
                print("FAIL\t%s\tCORR\t%s\tinterval goal does not check: %s" % (cid, chk, dsc))
                bad_total += 1
    for s in samples:
        print("SAMPLE\t" + s)
    for n in notes[:3]:
        print("#NOTE " + n.replace("\n", " | ")[:800])
    print("STATS\tcases=%d\tfails=%d\tdistinct_nontrivial=%d\tgoals=%d\tgoals_checked=%d\tgoal_files=%d\tflagged_but_degenerate=%d\t%s\tcoq_wall_s=%d" % (
        ncases, fails + bad_total, len(distinct), len(goals), len(goals) - bad_total, len(shards), degenerate,
        "\t".join("n_%s=%d" % kv for kv in sorted(per_kind.items())), int(time.time() - t0)))
    if ncases == 0:
        print("no cases read from " + a.cases)
        sys.exit(2)


if __name__ == "__main__":
    main()
