#!/usr/bin/env python3
"""Orchestrator of one property check (see DESIGN.md 2.7).

  tools/check.py Cxx [--tier quick|thorough] [--replay FILE]

Stages: (1) proof stage - full `make` of the Coq development, re-compilation of Props/Cxx.v with its
Print Assumptions output parsed, grep for forbidden constructs, coqchk in the thorough tier;
(2) correspondence stage - extraction + OCaml driver build, Go harness build from /repo's working
tree (tag verif), implementation and model run on the same generated cases; the driver prints
FAIL lines (CORR = model and implementation disagree, SPEC = the property's executable statement
is false of the implementation's output); (3) known-findings matching, VIOLATION lines, evidence.
"""
import argparse, fcntl, glob, hashlib, json, os, re, shutil, subprocess, sys, time

VERIF = os.path.dirname(os.path.dirname(os.path.abspath(__file__)))
COQ = os.path.join(VERIF, "coq")
BUILD = os.path.join(VERIF, "build")
RUNDIR = BUILD   # replaced in main() by a per-run scratch directory: concurrent runs never share case files or binaries
REPO = os.environ.get("VERIF_REPO", "/repo")
GOENV = dict(os.environ, GOFLAGS="-mod=mod", GOPROXY="off", GOSUMDB="off", GOTOOLCHAIN="local",
             CGO_ENABLED=os.environ.get("CGO_ENABLED", "0"))
FORBIDDEN = re.compile(r"\b(Admitted|admit|Axiom|Axioms|Parameter|Parameters|Conjecture|Conjectures|"
                       r"Admit Obligations|bypass_check|Unset Guard Checking|Unset Positivity Checking|"
                       r"Unset Universe Checking|type-in-type|impredicative-set)\b")
# axioms declared by the standard library (or by installed libraries on top of it) that a theorem may depend on
ALLOWED_AXIOMS = [
    "ClassicalDedekindReals.sig_forall_dec", "ClassicalDedekindReals.sig_not_dec",
    "FunctionalExtensionality.functional_extensionality_dep", "functional_extensionality_dep",
    "Classical_Prop.classic", "classic", "Eqdep.Eq_rect_eq.eq_rect_eq", "JMeq.JMeq_eq",
    "ProofIrrelevance.proof_irrelevance", "PropExtensionality.propositional_extensionality",
    "sig_forall_dec", "sig_not_dec",
]
PRIMITIVE_PREFIXES = ("PrimFloat.", "PrimInt63.", "Uint63.", "FloatAxioms.", "FloatOps.", "SpecFloat.",
                      "Sint63.", "Uint63Axioms.", "FloatLemmas.", "PArray.", "Int63.")


def sh(cmd, cwd=None, env=None, timeout=None, inp=None):
    t0 = time.time()
    p = subprocess.run(cmd, cwd=cwd, env=env, shell=isinstance(cmd, str), stdout=subprocess.PIPE,
                       stderr=subprocess.STDOUT, timeout=timeout, input=inp)
    return p.returncode, p.stdout.decode("utf-8", "replace"), time.time() - t0


def load_prop(pid):
    with open(os.path.join(VERIF, "props", pid + ".json")) as f:
        return json.load(f)


def coq_project():
    """(Re)generate coq/_CoqProject and coq/Makefile from the files on disk."""
    files = []
    for d in ("Base", "Model", "Proofs", "Props", "Gen"):
        files += sorted(glob.glob(os.path.join(COQ, d, "*.v")))
    rel = [os.path.relpath(f, COQ) for f in files]
    body = "-Q . SF\n-arg -w -arg -notation-overridden,-deprecated-hint-without-locality,-deprecated-instance-without-locality\n" + "\n".join(rel) + "\n"
    path = os.path.join(COQ, "_CoqProject")
    old = open(path).read() if os.path.exists(path) else ""
    if old != body or not os.path.exists(os.path.join(COQ, "Makefile")):
        open(path, "w").write(body)
        rc, out, _ = sh("coq_makefile -f _CoqProject -o Makefile", cwd=COQ)
        if rc != 0:
            raise RuntimeError("coq_makefile failed: " + out)


def coq_closure(roots):
    """The .v files (absolute paths) the given files transitively Require from this development."""
    seen, todo = set(), [os.path.join(COQ, r) for r in roots]
    while todo:
        f = todo.pop()
        if f in seen or not os.path.exists(f):
            continue
        seen.add(f)
        src = re.sub(r"\(\*.*?\*\)", "", open(f).read(), flags=re.S)
        for m in re.finditer(r"From\s+SF\s+Require\s+(?:Import\s+|Export\s+)?(.*?)\.(?=\s|$)", src, flags=re.S):
            for name in m.group(1).split():
                todo.append(os.path.join(COQ, name.replace(".", "/") + ".v"))
        for m in re.finditer(r"\bSF\.([A-Za-z_][A-Za-z0-9_]*(?:\.[A-Za-z_][A-Za-z0-9_']*)+)", src):
            parts = m.group(1).split(".")
            for k in range(len(parts), 1, -1):
                cand = os.path.join(COQ, *parts[:k]) + ".v"
                if os.path.exists(cand):
                    todo.append(cand)
                    break
    return sorted(seen)


def extract_deps(prop):
    """.vo targets of everything Extract/<x>.v requires from this development (the extraction itself is run
    later, outside make): on a fresh tree they are not necessarily in the closure of the statement files."""
    if not prop.get("extract"):
        return []
    out = []
    for f in coq_closure(["Extract/%s.v" % prop["extract"]]):
        rel = os.path.relpath(f, COQ)
        if not rel.startswith("Extract/"):
            out.append(rel[:-2] + ".vo")
    return out


def proof_stage(prop, tier, log):
    """Returns dict(obligations, discharged, axioms, problems, theorems)."""
    res = dict(obligations=0, discharged=0, axioms={}, problems=[], theorems=[], checker_cmd="")
    # translator tie: regenerate coq/Gen/Consts.v from the Go source of the tree under test (idempotent)
    rc0, out0, dt0 = sh(["sh", os.path.join(VERIF, "tools", "gen_consts.sh")], env=dict(GOENV, VERIF_REPO=REPO), timeout=600)
    log.append("== gen_consts (%.1fs) rc=%d\n%s" % (dt0, rc0, out0[-3000:]))
    if rc0 != 0:
        res["problems"].append("gen_consts failed (coq/Gen/Consts.v removed): " + out0[-800:])
    # translator tie, function bodies: regenerate coq/Gen/Funcs.v from the Go source of the tree under test (idempotent)
    rc0, out0, dt0 = sh(["sh", os.path.join(VERIF, "tools", "gen_funcs.sh")], env=dict(GOENV, VERIF_REPO=REPO), timeout=600)
    log.append("== gen_funcs (%.1fs) rc=%d\n%s" % (dt0, rc0, out0[-3000:]))
    if rc0 != 0:
        res["problems"].append("gen_funcs failed (coq/Gen/Funcs.v removed): " + out0[-800:])
    coq_project()
    targets = [t[:-2] + ".vo" for t in [prop["props_file"]] + prop.get("props_extra", []) + prop.get("extra_coq", [])]
    targets += extract_deps(prop)
    rc, out, dt = sh("make -j16 " + " ".join(targets), cwd=COQ, timeout=6000)
    log.append("== make (%.1fs) rc=%d\n%s" % (dt, rc, out[-3000:]))
    if rc != 0:
        res["problems"].append("coq build failed: " + out[-1500:])
    # forbidden constructs anywhere in the development
    for f in coq_closure([prop["props_file"]] + prop.get("props_extra", []) + prop.get("extra_coq", []) + (["Extract/%s.v" % prop["extract"]] if prop.get("extract") else [])):
        src = re.sub(r"\(\*.*?\*\)", "", open(f).read(), flags=re.S)
        m = FORBIDDEN.search(src)
        if m:
            res["problems"].append("forbidden construct %r in %s" % (m.group(0), os.path.relpath(f, VERIF)))
    # statement files: Props/Cxx.v plus optional further statement-only files ("props_extra"), all treated alike
    pfiles = [prop["props_file"]] + prop.get("props_extra", [])
    theorems = []
    for pfile in pfiles:
        theorems += re.findall(r"^\s*(?:Theorem|Corollary)\s+([A-Za-z0-9_']+)", open(os.path.join(COQ, pfile)).read(), flags=re.M)
    res["theorems"] = theorems
    res["obligations"] = len(theorems)
    res["checker_cmd"] = "make -C coq -j16 && " + " && ".join("coqc -Q coq SF coq/" + f for f in pfiles)
    if rc == 0:
        n_print = 0
        for pfile in pfiles:
            rc2, out2, dt2 = sh(["coqc", "-Q", ".", "SF", "-w", "-notation-overridden", pfile], cwd=COQ, timeout=1200)
            log.append("== coqc %s (%.1fs) rc=%d\n%s" % (pfile, dt2, rc2, out2[-4000:]))
            if rc2 != 0:
                res["problems"].append("Props file %s does not compile: " % pfile + out2[-1500:])
                continue
            # Print Assumptions blocks, in order of appearance
            blocks = re.split(r"(?=Closed under the global context|Axioms:)", out2)
            for b in blocks:
                if b.startswith("Closed under the global context"):
                    n_print += 1
                elif b.startswith("Axioms:"):
                    n_print += 1
                    names = re.findall(r"^([A-Za-z0-9_.']+)\s*:", b[len("Axioms:"):], flags=re.M)
                    for nme in names:
                        if nme.startswith(PRIMITIVE_PREFIXES):
                            res["axioms"].setdefault("primitives", set()).add(nme)
                        elif nme in ALLOWED_AXIOMS or nme.split(".")[-1] in ALLOWED_AXIOMS:
                            res["axioms"].setdefault("stdlib", set()).add(nme)
                        else:
                            res["problems"].append("theorem depends on non-stdlib axiom " + nme)
        if n_print < len(theorems):
            res["problems"].append("only %d Print Assumptions for %d theorems" % (n_print, len(theorems)))
        if not [p for p in res["problems"]]:
            res["discharged"] = len(theorems)
    if tier == "thorough" and rc == 0 and not res["problems"] and prop.get("coqchk", "run") == "skip":
        log.append("== coqchk skipped for this property: " + prop.get("coqchk_note", ""))
        res["checker_cmd"] += "   (coqchk not run: %s)" % prop.get("coqchk_note", "")
    elif tier == "thorough" and rc == 0 and not res["problems"]:
        vo = " SF.".join(f.replace("/", ".")[:-2] for f in [prop["props_file"]] + prop.get("props_extra", []))
        rc3, out3, dt3 = sh("coqchk -silent -o -Q . SF SF." + vo, cwd=COQ, timeout=6000)
        log.append("== coqchk (%.1fs) rc=%d\n%s" % (dt3, rc3, out3[-3000:]))
        res["checker_cmd"] += " && coqchk -silent -o -Q coq SF SF." + vo
        if rc3 != 0:
            res["problems"].append("coqchk failed: " + out3[-1000:])
            res["discharged"] = 0
    res["axioms"] = {k: sorted(v) for k, v in res["axioms"].items()}
    return res


def build_driver(prop, log):
    """Extract the model and build the OCaml driver; returns path or None."""
    name = prop["driver"]
    d = os.path.join(RUNDIR, "ocaml", name)
    os.makedirs(d, exist_ok=True)
    src = os.path.join(VERIF, "ocaml", name)
    rc, out, dt = sh(["coqc", "-Q", COQ, "SF", "-w", "-all", os.path.join(COQ, "Extract", prop["extract"] + ".v")], cwd=d, timeout=1200)
    log.append("== extraction (%.1fs) rc=%d\n%s" % (dt, rc, out[-2000:]))
    if rc != 0:
        return None, "extraction failed: " + out[-1000:]
    for f in glob.glob(os.path.join(src, "*.ml")) + [os.path.join(VERIF, "ocaml", "common", "sfio.ml")]:
        if os.path.basename(f) not in ("model.ml",):
            shutil.copy(f, d)
    extra = [os.path.basename(f) for f in sorted(glob.glob(os.path.join(src, "*.ml")))
             if os.path.basename(f) not in ("model.ml", "driver.ml")]
    cmd = ["ocamlfind", "ocamlopt", "-O3", "-w", "-a", "-package", "str", "-linkpkg", "model.mli", "model.ml", "sfio.ml"] + extra + ["driver.ml", "-o", "driver"]
    rc, out, dt = sh(cmd, cwd=d, timeout=1200)
    log.append("== ocamlopt (%.1fs) rc=%d\n%s" % (dt, rc, out[-2000:]))
    if rc != 0:
        return None, "driver build failed: " + out[-1000:]
    return os.path.join(d, "driver"), None


def build_harness(cmdname, log):
    # private copy of the harness module whose replace directive points at the tree under test
    hd = os.path.join(RUNDIR, "harness_" + cmdname)
    shutil.rmtree(hd, ignore_errors=True)
    shutil.copytree(os.path.join(VERIF, "harness"), hd)
    gm = open(os.path.join(hd, "go.mod")).read().replace("=> /repo", "=> " + REPO)
    open(os.path.join(hd, "go.mod"), "w").write(gm)
    shutil.copy(os.path.join(REPO, "go.sum"), os.path.join(hd, "go.sum"))
    os.makedirs(os.path.join(RUNDIR, "bin"), exist_ok=True)
    out_bin = os.path.join(RUNDIR, "bin", cmdname)
    rc, out, dt = sh(["go", "build", "-tags", "verif", "-o", out_bin, "./cmd/" + cmdname], cwd=hd, env=GOENV, timeout=1200)
    log.append("== go build %s (%.1fs) rc=%d\n%s" % (cmdname, dt, rc, out[-2000:]))
    if rc != 0:
        return None, "harness build failed (implementation no longer compiles against the harness): " + out[-1500:]
    return out_bin, None


def known_findings():
    p = os.path.join(VERIF, "known_findings.json")
    if not os.path.exists(p):
        return []
    return json.load(open(p)).get("findings", [])


def match_known(pid, fail, kfs):
    """A FAIL line matches a known finding when property, check name and the finding's key regex match."""
    for k in kfs:
        if k.get("status") != "known" or k["property"] != pid:
            continue
        if k.get("check") and k["check"] != fail["name"]:
            continue
        if k.get("match") and not re.search(k["match"], fail["detail"] + "\t" + fail.get("case", "")):
            continue
        return k
    return None


def main():
    ap = argparse.ArgumentParser()
    ap.add_argument("pid")
    ap.add_argument("--tier", default=os.environ.get("VERIF_TIER", "quick"))
    ap.add_argument("--replay", default=None)
    a = ap.parse_args()
    tier = a.tier if a.tier in ("quick", "thorough") else "quick"
    try:
        seed = int(os.environ.get("VERIF_SEED", "1"))
    except ValueError:
        seed = 1
    pid = a.pid
    prop = load_prop(pid)
    t0 = time.time()
    log = []
    os.makedirs(BUILD, exist_ok=True)
    global RUNDIR
    RUNDIR = os.path.join(BUILD, "run_%s_%d" % (pid, os.getpid()))
    shutil.rmtree(RUNDIR, ignore_errors=True)
    os.makedirs(RUNDIR)
    import atexit
    if not os.environ.get("VERIF_KEEP_BUILD"):
        atexit.register(lambda: shutil.rmtree(RUNDIR, ignore_errors=True))
    os.makedirs(os.path.join(VERIF, "evidence", "replays"), exist_ok=True)
    violations = []   # (replay_path, suffix)
    known_lines = []
    fails = []
    stats = {}
    gen_stats = []
    samples = []
    infra_problems = []

    # ---------------- proof stage (serialised across concurrently running checks: one coq tree)
    lockf = open(os.path.join(BUILD, ".coq.lock"), "w")
    fcntl.flock(lockf, fcntl.LOCK_EX)
    try:
        pr = proof_stage(prop, tier, log)
    finally:
        fcntl.flock(lockf, fcntl.LOCK_UN)

    # ---------------- correspondence stage
    total_cases = 0
    driver = None
    if prop.get("driver"):
        driver, err = build_driver(prop, log)
        if err:
            infra_problems.append(err)
    for h in prop.get("harness", []):
        hb, err = build_harness(h["cmd"], log)
        if err:
            infra_problems.append(err)
            continue
        n = h.get("n_" + tier, h.get("n_quick", 1000))
        cases = os.path.join(RUNDIR, "%s_%s.cases" % (pid, h["cmd"]))
        if a.replay:
            rp = json.load(open(a.replay))
            open(cases, "w").write("\n".join(rp.get("case_lines", [])) + "\n")
            rc, out = 0, ""
        else:
            cmd = [hb, "-seed", str(seed), "-n", str(n), "-tier", tier, "-out", cases] + h.get("args", [])
            rc, out, dt = sh(cmd, cwd=RUNDIR, env=GOENV, timeout=h.get("timeout", 3000))
            log.append("== harness %s (%.1fs) rc=%d\n%s" % (h["cmd"], dt, rc, out[-3000:]))
        if rc != 0:
            # the implementation crashed the harness process: that is an observation, not infrastructure
            fails.append(dict(id="harness", kind="SPEC", name="harness_crash", detail=out[-1500:], cmd=h["cmd"]))
            continue
        for line in open(cases, errors="replace"):
            if line.startswith("#GEN\t"):
                try:
                    gen_stats.append(json.loads(line.split("\t", 1)[1]))
                except Exception:
                    pass
        if driver is None:
            continue
        rc, out, dt = sh([driver, cases] + h.get("driver_args", []), cwd=RUNDIR, timeout=h.get("timeout", 3000))
        log.append("== driver %s (%.1fs) rc=%d\n%s" % (h["cmd"], dt, rc, out[-1500:]))
        if rc != 0:
            infra_problems.append("driver crashed: " + out[-1000:])
            continue
        for line in out.splitlines():
            f = line.split("\t")
            if f[0] == "FAIL" and len(f) >= 5:
                fails.append(dict(id=f[1], kind=f[2], name=f[3], detail=f[4], cmd=h["cmd"], cases=cases))
            elif f[0] == "STATS":
                for kv in f[1:]:
                    if "=" in kv:
                        k, v = kv.split("=", 1)
                        try:
                            stats[k] = stats.get(k, 0) + int(v)
                        except ValueError:
                            stats[k] = v
            elif f[0] == "SAMPLE" and len(samples) < 6:
                samples.append("\t".join(f[1:])[:600])
        if not samples:
            with open(cases, errors="replace") as cf:
                for i, line in enumerate(cf):
                    if i in (1, 11) and not line.startswith("#"):
                        samples.append(line.strip()[:600])
    # extra pipelines speaking the same FAIL/STATS protocol
    for x in prop.get("extra_cmds", []):
        cmd = x["cmd"].replace("{seed}", str(seed)).replace("{tier}", tier).replace("{build}", RUNDIR)
        rc, out, dt = sh(cmd, cwd=VERIF, env=GOENV, timeout=x.get("timeout", 3000))
        log.append("== extra %s (%.1fs) rc=%d\n%s" % (cmd, dt, rc, out[-3000:]))
        if rc != 0:
            infra_problems.append("extra command failed: %s: %s" % (cmd, out[-800:]))
        for line in out.splitlines():
            f = line.split("\t")
            if f[0] == "FAIL" and len(f) >= 5:
                fails.append(dict(id=f[1], kind=f[2], name=f[3], detail=f[4], cmd=x.get("name", "extra")))
            elif f[0] == "STATS":
                for kv in f[1:]:
                    if "=" in kv:
                        k, v = kv.split("=", 1)
                        try:
                            stats[k] = stats.get(k, 0) + int(v)
                        except ValueError:
                            stats[k] = v
            elif f[0] == "SAMPLE" and len(samples) < 6:
                samples.append("\t".join(f[1:])[:600])

    # ---------------- classify failures
    kfs = known_findings()
    case_cache = {}

    def case_line(fl):
        path = fl.get("cases")
        if not path:
            return ""
        if path not in case_cache:
            m = {}
            with open(path, errors="replace") as cf:
                for line in cf:
                    if not line.startswith("#"):
                        m[line.split("\t", 1)[0]] = line.rstrip("\n")
            case_cache[path] = m
        return case_cache[path].get(fl["id"], "")

    spec_fails, corr_fails, known_hits = [], [], {}
    for fl in fails:
        fl["case"] = case_line(fl)
        k = match_known(pid, fl, kfs)
        if k:
            known_hits.setdefault(k["id"], [k, 0])[1] += 1
            continue
        (spec_fails if fl["kind"] == "SPEC" else corr_fails).append(fl)
    for kid, (k, cnt) in known_hits.items():
        known_lines.append("KNOWN-FINDING: property=%s %s [%s, %d case(s) this run]" % (pid, k["what"], kid, cnt))

    def write_replay(name, payload):
        p = os.path.join(VERIF, "evidence", "replays", "%s-%s-%s.json" % (pid, seed, name))
        json.dump(payload, open(p, "w"), indent=1)
        return os.path.relpath(p, VERIF)

    if spec_fails:
        # one replay per distinct check name; the smallest failing case first
        by = {}
        for fl in spec_fails:
            by.setdefault(fl["name"], []).append(fl)
        for name, lst in by.items():
            lst.sort(key=lambda f: len(f["case"]) or 10 ** 9)
            f0 = lst[0]
            rp = write_replay(name, dict(property=pid, kind="failing-input", check=name, seed=seed, tier=tier,
                                         harness=f0.get("cmd"), case_id=f0["id"], detail=f0["detail"],
                                         case_lines=[f0["case"]] if f0["case"] else [], failing_cases=len(lst),
                                         how="tools/check.py %s --replay <this file> re-runs model and spec on the recorded case; "
                                             "the case line holds the input and the implementation's observed output" % pid))
            violations.append((rp, ""))
    elif corr_fails or pr["problems"] or infra_problems:
        what = []
        if pr["problems"]:
            what.append(dict(broken="proof", detail=pr["problems"]))
        if corr_fails:
            names = sorted(set(f["name"] for f in corr_fails))
            what.append(dict(broken="correspondence", checks=names, cases=len(corr_fails),
                             first=dict(id=corr_fails[0]["id"], detail=corr_fails[0]["detail"], case_lines=[corr_fails[0]["case"]])))
        if infra_problems:
            what.append(dict(broken="machinery", detail=infra_problems))
        rp = write_replay("unchecked", dict(property=pid, kind="no-failing-input-found", seed=seed, tier=tier, what=what,
                                            case_lines=[corr_fails[0]["case"]] if corr_fails and corr_fails[0]["case"] else [],
                                            theorems=pr["theorems"],
                                            note="the property is no longer shown to hold: the named theorem/correspondence does not check; "
                                                 "the executable statement of the property was still true of every implementation output explored"))
        violations.append((rp, " no-failing-input-found"))

    # ---------------- evidence
    total_cases = int(stats.get("cases", 0))
    ev = dict(
        property_id=pid, tier=tier, seed=seed, level=prop.get("level", "proof"),
        coverage=dict(
            obligations=pr["obligations"], discharged=pr["discharged"], checker_cmd=pr["checker_cmd"],
            trusted_base=prop.get("trusted_base", []) + ["axioms reported by Print Assumptions: " + (json.dumps(pr["axioms"]) if pr["axioms"] else "none (closed under the global context)")],
            theorems=pr["theorems"],
            evaluations=max(total_cases, 1),
            distinct_nontrivial=int(stats.get("distinct_nontrivial", 0)),
            traces_validated_against_impl=total_cases,
            rule=prop.get("rule", ""),
            samples=samples or ["(no case sampled)"],
            driver_stats=stats, generator_distribution=gen_stats,
            corr_failures=len(corr_fails), spec_failures=len(spec_fails),
            known_finding_cases={k: v[1] for k, v in known_hits.items()},
            exhaustive=False,
            explanation=prop.get("explanation", ""),
        ),
        assumptions=prop.get("assumptions", []),
        wall_s=round(time.time() - t0, 2),
        violations=len(violations),
    )
    # evidence describes /repo itself; runs against a scratch tree (VERIF_REPO) write theirs under build/
    evdir = os.path.join(VERIF, "evidence") if REPO == "/repo" else os.path.join(BUILD, "evidence_scratch")
    os.makedirs(evdir, exist_ok=True)
    json.dump(ev, open(os.path.join(evdir, pid + ".json"), "w"), indent=1)
    open(os.path.join(BUILD, pid + ".log"), "w").write("\n".join(log))

    for l in known_lines:
        print(l)
    print("%s: theorems %d/%d, cases %d, corr-fails %d, spec-fails %d, known %d, %.1fs" % (
        pid, pr["discharged"], pr["obligations"], total_cases, len(corr_fails), len(spec_fails), sum(v[1] for v in known_hits.values()), time.time() - t0))
    if violations:
        for p in pr["problems"] + infra_problems:
            print("problem:", p[:500])
        for fl in (spec_fails + corr_fails)[:5]:
            print("fail:", fl["id"], fl["kind"], fl["name"], fl["detail"][:300])
        for rp, suffix in violations:
            print("VIOLATION property=%s replay=%s%s" % (pid, rp, suffix))
        sys.exit(1)
    sys.exit(0)


if __name__ == "__main__":
    main()
