module gen_consts

go 1.23
