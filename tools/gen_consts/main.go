// gen_consts re-reads the Go source of the library under test ($VERIF_REPO, default /repo) and
// regenerates coq/Gen/Consts.v: the literal tables of the implementation (type codes, flag bits,
// DE-9IM patterns, node capacities, ...) as plain Gallina definitions.  The files
// coq/Proofs/Consts_tie_*.v state, per table, that the hand-written model uses the same values; a
// changed table in the Go source therefore breaks the compilation of the corresponding tie file
// (DESIGN.md 2.5, second tie).
//
// Only the standard library is used (go/ast, go/parser, go/token, go/constant); everything is taken
// from the syntax tree, never from the text.  A construct that cannot be located (after a refactor)
// yields a sentinel value (empty list / None) and a warning on stderr: the tie then fails to
// compile instead of this program crashing.
//
//	go run . [-repo DIR] [-o FILE]      (-o - writes to stdout)
package main

import (
	"bytes"
	"flag"
	"fmt"
	"go/ast"
	"go/constant"
	"go/parser"
	"go/token"
	"os"
	"path/filepath"
	"sort"
	"strconv"
	"strings"
)

// ---------------------------------------------------------------------------------------------
// loading

type constSpec struct {
	name  string
	typ   string // declared (or inherited) type name, "" when untyped
	expr  ast.Expr
	iota  int
	file  string
	pos   token.Pos
	val   constant.Value
	state int // 0 new, 1 in progress, 2 done
}

type pkg struct {
	rel        string
	fset       *token.FileSet
	fileNames  []string
	files      map[string]*ast.File
	funcs      map[string]*ast.FuncDecl
	funcFile   map[string]string
	funcOrder  []string // keys, ordered by (file, position)
	consts     map[string]*constSpec
	constOrder []*constSpec
}

type lookupError string

func fail(format string, a ...interface{}) { panic(lookupError(fmt.Sprintf(format, a...))) }

var warnings []string

func warn(format string, a ...interface{}) {
	w := fmt.Sprintf(format, a...)
	warnings = append(warnings, w)
	fmt.Fprintln(os.Stderr, "gen_consts: WARNING: "+w)
}

func recvName(fd *ast.FuncDecl) string {
	if fd.Recv == nil || len(fd.Recv.List) == 0 {
		return ""
	}
	t := fd.Recv.List[0].Type
	for {
		switch x := t.(type) {
		case *ast.StarExpr:
			t = x.X
			continue
		case *ast.ParenExpr:
			t = x.X
			continue
		case *ast.IndexExpr:
			t = x.X
			continue
		case *ast.IndexListExpr:
			t = x.X
			continue
		case *ast.Ident:
			return x.Name
		}
		return "?"
	}
}

func load(repo, rel string) *pkg {
	p := &pkg{rel: rel, fset: token.NewFileSet(), files: map[string]*ast.File{}, funcs: map[string]*ast.FuncDecl{},
		funcFile: map[string]string{}, consts: map[string]*constSpec{}}
	dir := filepath.Join(repo, rel)
	ents, err := os.ReadDir(dir)
	if err != nil {
		warn("cannot read %s: %v", dir, err)
		return p
	}
	for _, e := range ents {
		n := e.Name()
		if e.IsDir() || !strings.HasSuffix(n, ".go") || strings.HasSuffix(n, "_test.go") {
			continue
		}
		f, err := parser.ParseFile(p.fset, filepath.Join(dir, n), nil, parser.SkipObjectResolution)
		if err != nil {
			warn("parse error in %s/%s: %v", rel, n, err)
		}
		if f == nil {
			continue
		}
		p.fileNames = append(p.fileNames, n)
		p.files[n] = f
	}
	sort.Strings(p.fileNames)
	for _, n := range p.fileNames {
		for _, d := range p.files[n].Decls {
			switch d := d.(type) {
			case *ast.FuncDecl:
				key := d.Name.Name
				if r := recvName(d); r != "" {
					key = r + "." + key
				}
				if _, dup := p.funcs[key]; !dup { // first wins (build-tagged variants)
					p.funcs[key] = d
					p.funcFile[key] = n
					p.funcOrder = append(p.funcOrder, key)
				}
			case *ast.GenDecl:
				if d.Tok != token.CONST {
					continue
				}
				var lastType string
				var lastValues []ast.Expr
				for i, s := range d.Specs {
					vs := s.(*ast.ValueSpec)
					if len(vs.Values) > 0 || vs.Type != nil {
						lastType = ""
						if id, ok := vs.Type.(*ast.Ident); ok {
							lastType = id.Name
						}
						lastValues = vs.Values
					}
					for j, nm := range vs.Names {
						cs := &constSpec{name: nm.Name, typ: lastType, iota: i, file: n, pos: nm.Pos()}
						if j < len(lastValues) {
							cs.expr = lastValues[j]
						}
						if cs.typ == "" && cs.expr != nil { // `x = T(3)` : typed through the conversion
							if c, ok := cs.expr.(*ast.CallExpr); ok && len(c.Args) == 1 {
								if id, ok := c.Fun.(*ast.Ident); ok {
									cs.typ = id.Name
								}
							}
						}
						if nm.Name != "_" {
							if _, dup := p.consts[nm.Name]; !dup {
								p.consts[nm.Name] = cs
							}
						}
						p.constOrder = append(p.constOrder, cs)
					}
				}
			}
		}
	}
	return p
}

func (p *pkg) fn(key string) *ast.FuncDecl {
	fd, ok := p.funcs[key]
	if !ok || fd.Body == nil {
		fail("function %s.%s not found", p.rel, key)
	}
	return fd
}

func (p *pkg) where(key string) string { return p.rel + "/" + p.funcFile[key] + ":" + key }

// ---------------------------------------------------------------------------------------------
// constant evaluation (package-level constants, iota, literals, conversions)

func (p *pkg) constVal(cs *constSpec) constant.Value {
	switch cs.state {
	case 2:
		return cs.val
	case 1:
		return nil // cycle
	}
	cs.state = 1
	if cs.expr != nil {
		cs.val = p.eval(cs.expr, cs.iota)
	}
	cs.state = 2
	return cs.val
}

func (p *pkg) eval(e ast.Expr, iota int) (v constant.Value) {
	defer func() {
		if r := recover(); r != nil {
			if _, ok := r.(lookupError); ok {
				panic(r)
			}
			v = nil // go/constant panics on ill-typed operands
		}
	}()
	switch x := e.(type) {
	case *ast.BasicLit:
		v := constant.MakeFromLiteral(x.Value, x.Kind, 0)
		if v.Kind() == constant.Unknown {
			return nil
		}
		return v
	case *ast.ParenExpr:
		return p.eval(x.X, iota)
	case *ast.Ident:
		switch x.Name {
		case "iota":
			if iota < 0 {
				return nil
			}
			return constant.MakeInt64(int64(iota))
		case "true":
			return constant.MakeBool(true)
		case "false":
			return constant.MakeBool(false)
		}
		if cs, ok := p.consts[x.Name]; ok {
			return p.constVal(cs)
		}
		return nil
	case *ast.UnaryExpr:
		a := p.eval(x.X, iota)
		if a == nil {
			return nil
		}
		switch x.Op {
		case token.ADD, token.SUB, token.NOT:
			return constant.UnaryOp(x.Op, a, 0)
		}
		return nil
	case *ast.BinaryExpr:
		a, b := p.eval(x.X, iota), p.eval(x.Y, iota)
		if a == nil || b == nil {
			return nil
		}
		switch x.Op {
		case token.SHL, token.SHR:
			s, ok := constant.Uint64Val(constant.ToInt(b))
			if !ok || s > 512 {
				return nil
			}
			return constant.Shift(constant.ToInt(a), x.Op, uint(s))
		case token.EQL, token.NEQ, token.LSS, token.LEQ, token.GTR, token.GEQ:
			return constant.MakeBool(constant.Compare(a, x.Op, b))
		case token.QUO:
			if a.Kind() == constant.Int && b.Kind() == constant.Int {
				if constant.Sign(b) == 0 {
					return nil
				}
				return constant.BinaryOp(a, token.QUO_ASSIGN, b)
			}
			return constant.BinaryOp(a, x.Op, b)
		case token.REM:
			if constant.Sign(b) == 0 {
				return nil
			}
			return constant.BinaryOp(a, x.Op, b)
		case token.ADD, token.SUB, token.MUL, token.AND, token.OR, token.XOR, token.AND_NOT, token.LAND, token.LOR:
			return constant.BinaryOp(a, x.Op, b)
		}
		return nil
	case *ast.CallExpr: // conversion T(c)
		if len(x.Args) == 1 && !x.Ellipsis.IsValid() {
			if id, ok := x.Fun.(*ast.Ident); ok {
				if _, isFn := p.funcs[id.Name]; !isFn {
					return p.eval(x.Args[0], iota)
				}
			}
		}
		return nil
	}
	return nil
}

func (p *pkg) intOf(e ast.Expr) (int64, bool) {
	v := p.eval(e, -1)
	if v == nil {
		return 0, false
	}
	v = constant.ToInt(v)
	if v.Kind() != constant.Int {
		return 0, false
	}
	return constant.Int64Val(v)
}

func (p *pkg) mustInt(e ast.Expr, what string) int64 {
	i, ok := p.intOf(e)
	if !ok {
		fail("%s: not an integer constant: %s", what, canon(e, nil))
	}
	return i
}

func (p *pkg) strOf(e ast.Expr) (string, bool) {
	v := p.eval(e, -1)
	if v == nil || v.Kind() != constant.String {
		return "", false
	}
	return constant.StringVal(v), true
}

func (p *pkg) mustStr(e ast.Expr, what string) string {
	s, ok := p.strOf(e)
	if !ok {
		fail("%s: not a string constant: %s", what, canon(e, nil))
	}
	return s
}

// ---------------------------------------------------------------------------------------------
// syntax helpers

func unparen(e ast.Expr) ast.Expr {
	for {
		pe, ok := e.(*ast.ParenExpr)
		if !ok {
			return e
		}
		e = pe.X
	}
}

// canon prints an expression in a canonical form (no blanks, minimal parentheses), renaming the
// identifiers found in env (function arguments -> p0, p1, ...; recognised locals -> v0, v1, ...), so that the
// result does not depend on how the source names its arguments and local variables.
func canon(e ast.Expr, env map[string]string) string {
	switch x := e.(type) {
	case nil:
		return ""
	case *ast.ParenExpr:
		return canon(x.X, env)
	case *ast.Ident:
		if r, ok := env[x.Name]; ok {
			return r
		}
		return x.Name
	case *ast.BasicLit:
		return x.Value
	case *ast.SelectorExpr:
		return canon(x.X, env) + "." + x.Sel.Name
	case *ast.StarExpr:
		return "*" + canon(x.X, env)
	case *ast.UnaryExpr:
		s := canon(x.X, env)
		if _, ok := unparen(x.X).(*ast.BinaryExpr); ok {
			s = "(" + s + ")"
		}
		return x.Op.String() + s
	case *ast.BinaryExpr:
		l, r := canon(x.X, env), canon(x.Y, env)
		if b, ok := unparen(x.X).(*ast.BinaryExpr); ok && b.Op.Precedence() < x.Op.Precedence() {
			l = "(" + l + ")"
		}
		if b, ok := unparen(x.Y).(*ast.BinaryExpr); ok && b.Op.Precedence() <= x.Op.Precedence() {
			r = "(" + r + ")"
		}
		return l + x.Op.String() + r
	case *ast.CallExpr:
		var as []string
		for _, a := range x.Args {
			as = append(as, canon(a, env))
		}
		return canon(x.Fun, env) + "(" + strings.Join(as, ",") + ")"
	case *ast.IndexExpr:
		return canon(x.X, env) + "[" + canon(x.Index, env) + "]"
	case *ast.SliceExpr:
		return canon(x.X, env) + "[" + canon(x.Low, env) + ":" + canon(x.High, env) + "]"
	case *ast.ArrayType:
		return "[" + canon(x.Len, env) + "]" + canon(x.Elt, env)
	case *ast.Ellipsis:
		return "..."
	case *ast.CompositeLit:
		return canon(x.Type, env) + "{...}"
	}
	return fmt.Sprintf("<%T>", e)
}

func paramEnv(fd *ast.FuncDecl) map[string]string {
	env := map[string]string{}
	i := 0
	if fd.Type.Params != nil {
		for _, f := range fd.Type.Params.List {
			if len(f.Names) == 0 {
				i++
			}
			for _, n := range f.Names {
				env[n.Name] = fmt.Sprintf("p%d", i)
				i++
			}
		}
	}
	if fd.Recv != nil {
		for _, f := range fd.Recv.List {
			for _, n := range f.Names {
				env[n.Name] = "recv"
			}
		}
	}
	return env
}

// lastName is the field or identifier an expression ends in (s.precZ -> precZ), arguments renamed.
func lastName(e ast.Expr, env map[string]string) string {
	switch x := unparen(e).(type) {
	case *ast.Ident:
		if r, ok := env[x.Name]; ok {
			return r
		}
		return x.Name
	case *ast.SelectorExpr:
		return x.Sel.Name
	}
	return canon(e, env)
}

func calleeName(c *ast.CallExpr) string {
	switch f := unparen(c.Fun).(type) {
	case *ast.Ident:
		return f.Name
	case *ast.SelectorExpr:
		return f.Sel.Name
	}
	return ""
}

var builtins = map[string]bool{"make": true, "len": true, "cap": true, "append": true, "new": true, "panic": true,
	"copy": true, "delete": true, "string": true, "byte": true, "int": true, "int64": true, "uint64": true,
	"uint32": true, "float64": true, "uint": true, "int32": true, "rune": true, "bool": true, "min": true, "max": true}

// firstCall is the name of the first (in source order) call of a non-builtin function in the nodes.
func firstCall(stmts []ast.Stmt) string {
	best := token.Pos(-1)
	name := ""
	for _, s := range stmts {
		ast.Inspect(s, func(n ast.Node) bool {
			if c, ok := n.(*ast.CallExpr); ok {
				if nm := calleeName(c); nm != "" && !builtins[nm] {
					if best < 0 || c.Pos() < best {
						best, name = c.Pos(), nm
					}
				}
			}
			return true
		})
		if name != "" {
			break
		}
	}
	return name
}

// firstAssignedName: the first statement `x = Name` / `x := Name` / `x = pkg.Name` gives Name.
func firstAssignedName(stmts []ast.Stmt) string {
	name := ""
	for _, s := range stmts {
		ast.Inspect(s, func(n ast.Node) bool {
			if name != "" {
				return false
			}
			if a, ok := n.(*ast.AssignStmt); ok && len(a.Rhs) == 1 {
				found := ""
				ast.Inspect(a.Rhs[0], func(m ast.Node) bool {
					if found != "" {
						return false
					}
					switch y := m.(type) {
					case *ast.SelectorExpr:
						found = y.Sel.Name
						return false
					case *ast.Ident:
						if y.Name != "nativeOrder" { // wkb_parser.go: p.no = (nativeOrder == binary.X)
							found = y.Name
						}
					}
					return true
				})
				name = found
			}
			return true
		})
		if name != "" {
			break
		}
	}
	return name
}

func switches(n ast.Node) []*ast.SwitchStmt {
	var out []*ast.SwitchStmt
	ast.Inspect(n, func(m ast.Node) bool {
		if s, ok := m.(*ast.SwitchStmt); ok {
			out = append(out, s)
		}
		return true
	})
	return out
}

func findSwitch(fd *ast.FuncDecl, what string, pred func(*ast.SwitchStmt) bool) *ast.SwitchStmt {
	for _, s := range switches(fd.Body) {
		if pred(s) {
			return s
		}
	}
	fail("%s: switch statement not found in %s", what, fd.Name.Name)
	return nil
}

func clauses(s *ast.SwitchStmt) []*ast.CaseClause {
	var out []*ast.CaseClause
	for _, c := range s.Body.List {
		out = append(out, c.(*ast.CaseClause))
	}
	return out
}

func arrayLit(n ast.Node, elem string, what string) *ast.CompositeLit {
	var out *ast.CompositeLit
	ast.Inspect(n, func(m ast.Node) bool {
		if out != nil {
			return false
		}
		if c, ok := m.(*ast.CompositeLit); ok {
			if at, ok := c.Type.(*ast.ArrayType); ok {
				if id, ok := at.Elt.(*ast.Ident); ok && id.Name == elem {
					out = c
					return false
				}
			}
		}
		return true
	})
	if out == nil {
		fail("%s: no []%s literal found", what, elem)
	}
	return out
}

type opc struct {
	pos  token.Pos
	name string
	op   string
	val  int64
}

func sortOps(o []opc) []opc {
	sort.SliceStable(o, func(i, j int) bool { return o[i].pos < o[j].pos })
	return o
}

// comparisons `X op c` (c an integer constant, X not) inside n, in source order
func (p *pkg) comparisons(n ast.Node, env map[string]string) []opc {
	var out []opc
	ast.Inspect(n, func(m ast.Node) bool {
		b, ok := m.(*ast.BinaryExpr)
		if !ok {
			return true
		}
		switch b.Op {
		case token.LSS, token.GTR, token.LEQ, token.GEQ, token.EQL, token.NEQ:
		default:
			return true
		}
		_, lc := p.intOf(b.X)
		rv, rc := p.intOf(b.Y)
		if rc && !lc {
			out = append(out, opc{b.OpPos, lastName(b.X, env), b.Op.String(), rv})
		}
		return true
	})
	return sortOps(out)
}

// bit operations with one integer-constant operand inside n, in source order:
// x & c, x | c, x << c, x >> c, x &^ c and the assignment forms x |= c ...
func (p *pkg) bitops(n ast.Node) []opc {
	var out []opc
	ast.Inspect(n, func(m ast.Node) bool {
		switch b := m.(type) {
		case *ast.BinaryExpr:
			switch b.Op {
			case token.AND, token.OR, token.SHL, token.SHR, token.AND_NOT, token.XOR:
			default:
				return true
			}
			_, lc := p.intOf(b.X)
			rv, rc := p.intOf(b.Y)
			if rc && !lc {
				out = append(out, opc{b.OpPos, "", b.Op.String(), rv})
			} else if lc && !rc && (b.Op == token.AND || b.Op == token.OR || b.Op == token.XOR) {
				lv, _ := p.intOf(b.X)
				out = append(out, opc{b.OpPos, "", b.Op.String(), lv})
			}
		case *ast.AssignStmt:
			switch b.Tok {
			case token.AND_ASSIGN, token.OR_ASSIGN, token.SHL_ASSIGN, token.SHR_ASSIGN, token.AND_NOT_ASSIGN, token.XOR_ASSIGN:
				if len(b.Rhs) == 1 {
					if rv, ok := p.intOf(b.Rhs[0]); ok {
						out = append(out, opc{b.TokPos, "", b.Tok.String(), rv})
					}
				}
			}
		}
		return true
	})
	return sortOps(out)
}

// ---------------------------------------------------------------------------------------------
// Gallina output

func gz(i int64) string {
	if i < 0 {
		return fmt.Sprintf("(%d)%%Z", i)
	}
	return fmt.Sprintf("%d%%Z", i)
}

func gn(i int64, what string) string {
	if i < 0 {
		fail("%s: negative value %d where a natural number is expected", what, i)
	}
	return fmt.Sprintf("%d%%N", i)
}

func gs(s string) string {
	for _, c := range []byte(s) {
		if c < 0x20 || c > 0x7e {
			fail("string %q has a character outside printable ASCII", s)
		}
	}
	return `"` + strings.ReplaceAll(s, `"`, `""`) + `"`
}

func gb(b bool) string {
	if b {
		return "true"
	}
	return "false"
}

func glist(items []string) string {
	if len(items) == 0 {
		return "[]"
	}
	if len(strings.Join(items, "; ")) < 90 {
		return "[" + strings.Join(items, "; ") + "]"
	}
	return "[\n    " + strings.Join(items, ";\n    ") + "\n  ]"
}

func gstrs(ss []string) string {
	var it []string
	for _, s := range ss {
		it = append(it, gs(s))
	}
	if len(it) == 0 {
		return "[]"
	}
	return "[" + strings.Join(it, "; ") + "]"
}

func gzs(zs []int64) string {
	var it []string
	for _, z := range zs {
		it = append(it, gz(z))
	}
	if len(it) == 0 {
		return "[]"
	}
	return "[" + strings.Join(it, "; ") + "]"
}

var forbiddenWords = []string{"Axiom", "Parameter", "Admitted", "admit", "Conjecture", "bypass_check", "Unset Guard"}

type gen struct {
	buf   bytes.Buffer
	count int
	lost  int
}

// def emits `Definition name : typ := body.`; when the extraction fails the sentinel is emitted.
func (g *gen) def(name, typ, sentinel string, f func() (src string, body string)) {
	src, body := "", ""
	func() {
		defer func() {
			if r := recover(); r != nil {
				if le, ok := r.(lookupError); ok {
					warn("%s: %s -- emitting sentinel %s", name, string(le), sentinel)
				} else {
					warn("%s: internal error %v -- emitting sentinel %s", name, r, sentinel)
				}
				body = ""
			}
		}()
		src, body = f()
		for _, w := range forbiddenWords {
			if strings.Contains(src+body, w) {
				fail("the extracted text contains the word %q, which the forbidden-construct scan of coq/ would flag", w)
			}
		}
	}()
	g.count++
	if body == "" {
		g.lost++
		fmt.Fprintf(&g.buf, "(* NOT FOUND in the Go source: sentinel value *)\nDefinition %s : %s := %s.\n\n", name, typ, sentinel)
		return
	}
	fmt.Fprintf(&g.buf, "(* %s *)\nDefinition %s : %s :=\n  %s.\n\n", strings.ReplaceAll(src, "*)", "* )"), name, typ, body)
}

func (g *gen) listDef(name, elemTyp string, f func() (string, []string)) {
	g.def(name, "list ("+elemTyp+")", "[]", func() (string, string) {
		src, items := f()
		if len(items) == 0 {
			fail("empty table")
		}
		return src, glist(items)
	})
}

func (g *gen) optZ(name string, f func() (string, int64)) {
	g.def(name, "option Z", "None", func() (string, string) {
		src, v := f()
		return src, "Some " + gz(v)
	})
}

func (g *gen) optS(name string, f func() (string, string)) {
	g.def(name, "option string", "None", func() (string, string) {
		src, v := f()
		return src, "Some " + gs(v)
	})
}

func (g *gen) section(title string) {
	fmt.Fprintf(&g.buf, "(* %s %s *)\n\n", strings.Repeat("=", 20), title)
}

// ---------------------------------------------------------------------------------------------
// generic tables

// typed constants of one named type, in declaration order
func (g *gen) constsOfType(name string, p *pkg, typ string) {
	g.listDef(name, "string * Z", func() (string, []string) {
		var it []string
		file := ""
		for _, cs := range p.constOrder {
			if cs.typ != typ || cs.name == "_" {
				continue
			}
			v := p.constVal(cs)
			if v == nil {
				fail("constant %s cannot be evaluated", cs.name)
			}
			i, ok := constant.Int64Val(constant.ToInt(v))
			if !ok {
				fail("constant %s is not an integer", cs.name)
			}
			it = append(it, fmt.Sprintf("(%s, %s)", gs(cs.name), gz(i)))
			file = cs.file
		}
		if len(it) == 0 {
			fail("no constant of type %s", typ)
		}
		return fmt.Sprintf("%s/%s: constants of type %s, declaration order", p.rel, file, typ), it
	})
}

func (g *gen) namedConst(name string, p *pkg, cname string) {
	g.optZ(name, func() (string, int64) {
		cs, ok := p.consts[cname]
		if !ok {
			fail("constant %s.%s not found", p.rel, cname)
		}
		v := p.constVal(cs)
		if v == nil {
			fail("constant %s cannot be evaluated", cname)
		}
		i, ok := constant.Int64Val(constant.ToInt(v))
		if !ok {
			fail("constant %s is not an integer", cname)
		}
		return fmt.Sprintf("%s/%s: const %s", p.rel, cs.file, cname), i
	})
}

// tagged switch of a function -> (case value, summary of the case body)
func (g *gen) intCases(name string, p *pkg, fkey string, pred func(*ast.SwitchStmt) bool, body func([]ast.Stmt) string) {
	g.listDef(name, "Z * string", func() (string, []string) {
		fd := p.fn(fkey)
		sw := findSwitch(fd, name, pred)
		var it []string
		for _, c := range clauses(sw) {
			for _, v := range c.List {
				it = append(it, fmt.Sprintf("(%s, %s)", gz(p.mustInt(v, name)), gs(body(c.Body))))
			}
		}
		return p.where(fkey) + ": switch " + canon(sw.Tag, paramEnv(fd)), it
	})
}

func (g *gen) strCases(name string, p *pkg, fkey string, pred func(*ast.SwitchStmt) bool, body func([]ast.Stmt) string) {
	g.listDef(name, "string * string", func() (string, []string) {
		fd := p.fn(fkey)
		sw := findSwitch(fd, name, pred)
		var it []string
		for _, c := range clauses(sw) {
			for _, v := range c.List {
				key, ok := p.strOf(v)
				if !ok { // a named constant used as a label: keep its name
					id, isId := unparen(v).(*ast.Ident)
					if !isId {
						fail("%s: case label %s is neither a string nor a name", name, canon(v, nil))
					}
					key = id.Name
				}
				it = append(it, fmt.Sprintf("(%s, %s)", gs(key), gs(body(c.Body))))
			}
		}
		return p.where(fkey) + ": switch " + canon(sw.Tag, paramEnv(fd)), it
	})
}

func tagHasOp(op token.Token) func(*ast.SwitchStmt) bool {
	return func(s *ast.SwitchStmt) bool {
		b, ok := unparen(s.Tag).(*ast.BinaryExpr)
		return ok && b.Op == op
	}
}

func tagEndsIn(name string) func(*ast.SwitchStmt) bool {
	return func(s *ast.SwitchStmt) bool {
		if s.Tag == nil {
			return false
		}
		switch x := unparen(s.Tag).(type) {
		case *ast.Ident:
			return x.Name == name
		case *ast.SelectorExpr:
			return x.Sel.Name == name
		case *ast.CallExpr:
			return calleeName(x) == name
		}
		return false
	}
}

func firstCaseIs(p *pkg, label string) func(*ast.SwitchStmt) bool {
	return func(s *ast.SwitchStmt) bool {
		if s.Tag == nil {
			return false
		}
		for _, c := range clauses(s) {
			for _, v := range c.List {
				if str, ok := p.strOf(v); ok && str == label {
					return true
				}
				if id, ok := unparen(v).(*ast.Ident); ok && id.Name == label {
					return true
				}
			}
		}
		return false
	}
}

func (g *gen) opTable(name string, p *pkg, fkey string, named bool, f func(*ast.FuncDecl) []opc) {
	typ := "string * Z"
	if named {
		typ = "string * string * Z"
	}
	g.listDef(name, typ, func() (string, []string) {
		fd := p.fn(fkey)
		var it []string
		for _, o := range f(fd) {
			if named {
				it = append(it, fmt.Sprintf("(%s, %s, %s)", gs(o.name), gs(o.op), gz(o.val)))
			} else {
				it = append(it, fmt.Sprintf("(%s, %s)", gs(o.op), gz(o.val)))
			}
		}
		return p.where(fkey), it
	})
}

// ---------------------------------------------------------------------------------------------
// the tables

func (g *gen) base(geom *pkg) {
	g.section("geometry type and coordinates type (coq/Base/GeomAST.v)")
	g.constsOfType("geom_gtype_consts", geom, "GeometryType")
	g.constsOfType("geom_ctype_consts", geom, "CoordinatesType")
	g.listDef("geom_ctype_dimension", "Z", func() (string, []string) {
		key := "CoordinatesType.Dimension"
		lit := arrayLit(geom.fn(key), "int", key)
		var it []string
		for _, e := range lit.Elts {
			it = append(it, gz(geom.mustInt(e, key)))
		}
		return geom.where(key) + ": []int table indexed by the coordinates type", it
	})
	g.listDef("geom_ctype_strings", "string", func() (string, []string) {
		key := "CoordinatesType.String"
		lit := arrayLit(geom.fn(key), "string", key)
		var it []string
		for _, e := range lit.Elts {
			it = append(it, gs(geom.mustStr(e, key)))
		}
		return geom.where(key), it
	})
	mask := func(name, key string) {
		g.def(name, "option (string * Z)", "None", func() (string, string) {
			fd := geom.fn(key)
			var res string
			ast.Inspect(fd.Body, func(n ast.Node) bool {
				if b, ok := n.(*ast.BinaryExpr); ok && b.Op == token.AND && res == "" {
					for _, side := range []ast.Expr{b.X, b.Y} {
						if id, ok := unparen(side).(*ast.Ident); ok {
							if _, isC := geom.consts[id.Name]; isC {
								res = fmt.Sprintf("Some (%s, %s)", gs(id.Name), gz(geom.mustInt(id, key)))
							}
						}
					}
				}
				return true
			})
			if res == "" {
				fail("no `t & <constant>` in %s", key)
			}
			return geom.where(key) + ": the bit tested", res
		})
	}
	mask("geom_ctype_is3d_mask", "CoordinatesType.Is3D")
	mask("geom_ctype_ismeasured_mask", "CoordinatesType.IsMeasured")
	g.strCases("geom_gtype_strings", geom, "GeometryType.String", firstCaseIs(geom, "TypePoint"), func(b []ast.Stmt) string {
		for _, s := range b {
			if r, ok := s.(*ast.ReturnStmt); ok && len(r.Results) == 1 {
				return geom.mustStr(r.Results[0], "GeometryType.String")
			}
		}
		fail("GeometryType.String: case without return of a string")
		return ""
	})
}

func (g *gen) wkb(geom *pkg) {
	g.section("WKB (coq/Model/WKB.v)")
	g.listDef("wkb_type_codes", "N", func() (string, []string) {
		key := "wkbMarshaler.writeGeomType"
		lit := arrayLit(geom.fn(key), "uint32", key)
		var it []string
		for _, e := range lit.Elts {
			if _, isKV := e.(*ast.KeyValueExpr); isKV {
				fail("%s: keyed array literal", key)
			}
			it = append(it, gn(geom.mustInt(e, key), key))
		}
		return geom.where(key) + ": []uint32 table indexed by GeometryType", it
	})
	g.optZ("wkb_ctype_multiplier", func() (string, int64) {
		key := "wkbMarshaler.writeGeomType"
		fd := geom.fn(key)
		var vals []int64
		ast.Inspect(fd.Body, func(n ast.Node) bool {
			if b, ok := n.(*ast.BinaryExpr); ok && b.Op == token.MUL {
				_, lc := geom.intOf(b.X)
				rv, rc := geom.intOf(b.Y)
				if rc && !lc {
					vals = append(vals, rv)
				} else if lc && !rc {
					lv, _ := geom.intOf(b.X)
					vals = append(vals, lv)
				}
			}
			return true
		})
		if len(vals) != 1 {
			fail("%s: expected exactly one product with a constant, found %d", key, len(vals))
		}
		return geom.where(key) + ": uint32(ctype)*K + gt", vals[0]
	})
	tagConst := func(name string, op token.Token) {
		g.optZ(name, func() (string, int64) {
			key := "wkbParser.parseGeomAndCoordType"
			fd := geom.fn(key)
			sw := findSwitch(fd, name, tagHasOp(op))
			b := unparen(sw.Tag).(*ast.BinaryExpr)
			return geom.where(key) + ": switch " + canon(sw.Tag, nil), geom.mustInt(b.Y, name)
		})
	}
	tagConst("wkb_parse_type_modulus", token.REM)
	g.intCases("wkb_parse_type_cases", geom, "wkbParser.parseGeomAndCoordType", tagHasOp(token.REM), firstAssignedName)
	tagConst("wkb_parse_ctype_divisor", token.QUO)
	g.intCases("wkb_parse_ctype_cases", geom, "wkbParser.parseGeomAndCoordType", tagHasOp(token.QUO), firstAssignedName)
	g.intCases("wkb_parse_byte_order_cases", geom, "wkbParser.parseByteOrder", func(s *ast.SwitchStmt) bool { return s.Tag != nil }, firstAssignedName)
	g.listDef("wkb_write_byte_order", "string * Z", func() (string, []string) {
		key := "wkbMarshaler.writeByteOrder"
		fd := geom.fn(key)
		var it []string
		ast.Inspect(fd.Body, func(n ast.Node) bool {
			is, ok := n.(*ast.IfStmt)
			if !ok || len(it) > 0 {
				return true
			}
			cond, ok := unparen(is.Cond).(*ast.BinaryExpr)
			if !ok || cond.Op != token.EQL {
				return true
			}
			appended := func(b *ast.BlockStmt) int64 {
				var v int64 = -1
				ast.Inspect(b, func(m ast.Node) bool {
					if c, ok := m.(*ast.CallExpr); ok && calleeName(c) == "append" && len(c.Args) == 2 {
						v = geom.mustInt(c.Args[1], key)
					}
					return true
				})
				if v < 0 {
					fail("%s: no append(buf, <byte>)", key)
				}
				return v
			}
			eb, ok := is.Else.(*ast.BlockStmt)
			if !ok {
				fail("%s: if without else block", key)
			}
			it = append(it, fmt.Sprintf("(%s, %s)", gs(lastName(cond.Y, nil)), gz(appended(is.Body))))
			it = append(it, fmt.Sprintf("(%s, %s)", gs("else"), gz(appended(eb))))
			return true
		})
		return geom.where(key) + ": byte written when nativeOrder == <name>, and otherwise", it
	})
}

func (g *gen) wkt(geom *pkg) {
	g.section("WKT (coq/Model/WKT.v)")
	g.listDef("wkt_ctype_tags", "string", func() (string, []string) {
		key := "appendWKTHeader"
		lit := arrayLit(geom.fn(key), "string", key)
		var it []string
		for _, e := range lit.Elts {
			it = append(it, gs(geom.mustStr(e, key)))
		}
		return geom.where(key) + ": []string table indexed by the coordinates type", it
	})
	g.listDef("wkt_write_keywords", "string * string", func() (string, []string) {
		type kw struct{ recv, word string }
		var kws []kw
		for _, key := range geom.funcOrder {
			fd := geom.funcs[key]
			if fd.Body == nil || recvName(fd) == "" {
				continue
			}
			ast.Inspect(fd.Body, func(n ast.Node) bool {
				if c, ok := n.(*ast.CallExpr); ok && calleeName(c) == "appendWKTHeader" && len(c.Args) == 3 {
					kws = append(kws, kw{recvName(fd), geom.mustStr(c.Args[1], key)})
				}
				return true
			})
		}
		sort.Slice(kws, func(i, j int) bool { return kws[i].recv < kws[j].recv })
		var it []string
		for _, k := range kws {
			it = append(it, fmt.Sprintf("(%s, %s)", gs(k.recv), gs(k.word)))
		}
		return "geom/type_*.go: (receiver type, keyword passed to appendWKTHeader), sorted by receiver", it
	})
	g.strCases("wkt_parse_keywords", geom, "parser.nextGeometryTaggedText", firstCaseIs(geom, "POINT"), firstCall)
	g.strCases("wkt_parse_dim_cases", geom, "parser.nextGeomTag", firstCaseIs(geom, "Z"), firstAssignedName)
	g.listDef("wkt_empty_literals", "string", func() (string, []string) {
		key := "appendWKTEmpty"
		var it []string
		ast.Inspect(geom.fn(key).Body, func(n ast.Node) bool {
			if l, ok := n.(*ast.BasicLit); ok && l.Kind == token.STRING {
				it = append(it, gs(geom.mustStr(l, key)))
			}
			return true
		})
		return geom.where(key) + ": string literals", it
	})
	g.listDef("wkt_empty_no_space_after", "Z", func() (string, []string) {
		key := "appendWKTEmpty"
		fd := geom.fn(key)
		sw := findSwitch(fd, key, func(s *ast.SwitchStmt) bool { return s.Tag != nil })
		var it []string
		for _, c := range clauses(sw) {
			for _, v := range c.List {
				it = append(it, gz(geom.mustInt(v, key)))
			}
		}
		return geom.where(key) + ": last bytes after which no blank is inserted", it
	})
}

func (g *gen) geojson(geom *pkg) {
	g.section("GeoJSON (coq/Model/GeoJSON.v)")
	g.strCases("geojson_decode_cases", geom, "decodeGeoJSON", firstCaseIs(geom, "Point"), firstCall)
	g.listDef("geojson_node_tags", "string * string", func() (string, []string) {
		var it []string
		for _, n := range geom.fileNames {
			ast.Inspect(geom.files[n], func(m ast.Node) bool {
				ts, ok := m.(*ast.TypeSpec)
				if !ok || ts.Name.Name != "geojsonNode" {
					return true
				}
				st, ok := ts.Type.(*ast.StructType)
				if !ok {
					return true
				}
				for _, f := range st.Fields.List {
					if f.Tag == nil {
						continue
					}
					tag, err := strconv.Unquote(f.Tag.Value)
					if err != nil {
						continue
					}
					js := strings.Split(reflectTag(tag, "json"), ",")[0]
					for _, nm := range f.Names {
						it = append(it, fmt.Sprintf("(%s, %s)", gs(nm.Name), gs(js)))
					}
				}
				return false
			})
		}
		return "geom: struct geojsonNode, (field, json member name)", it
	})
	g.listDef("geojson_marshal_heads", "string * string", func() (string, []string) {
		type hd struct{ recv, lit string }
		var hs []hd
		for _, key := range geom.funcOrder {
			fd := geom.funcs[key]
			if fd.Body == nil || fd.Name.Name != "MarshalJSON" {
				continue
			}
			ast.Inspect(fd.Body, func(n ast.Node) bool {
				if l, ok := n.(*ast.BasicLit); ok && l.Kind == token.STRING {
					if s, ok := geom.strOf(l); ok && strings.HasPrefix(s, `{"type":"`) && !strings.Contains(s, "Feature") {
						hs = append(hs, hd{recvName(fd), s})
					}
				}
				return true
			})
		}
		sort.Slice(hs, func(i, j int) bool { return hs[i].recv < hs[j].recv })
		var it []string
		for _, h := range hs {
			it = append(it, fmt.Sprintf("(%s, %s)", gs(h.recv), gs(h.lit)))
		}
		return "geom/type_*.go: MarshalJSON, (receiver type, opening literal), sorted by receiver", it
	})
	g.listDef("geojson_feature_known_members", "string", func() (string, []string) {
		key := "GeoJSONFeature.UnmarshalJSON"
		fd := geom.fn(key)
		sw := findSwitch(fd, key, firstCaseIs(geom, "geometry"))
		var it []string
		for _, c := range clauses(sw) {
			for _, v := range c.List {
				it = append(it, gs(geom.mustStr(v, key)))
			}
		}
		return geom.where(key) + ": members that are not foreign members", it
	})
	typeCheck := func(name, key string) {
		g.listDef(name, "string", func() (string, []string) {
			fd := geom.fn(key)
			var it []string
			ast.Inspect(fd.Body, func(n ast.Node) bool {
				if b, ok := n.(*ast.BinaryExpr); ok && b.Op == token.NEQ {
					if s, ok := geom.strOf(b.Y); ok {
						it = append(it, gs(s))
					}
				}
				return true
			})
			return geom.where(key) + ": strings the type member is compared with (!=)", it
		})
	}
	typeCheck("geojson_feature_type", "GeoJSONFeature.UnmarshalJSON")
	typeCheck("geojson_feature_collection_type", "GeoJSONFeatureCollection.UnmarshalJSON")
}

// reflectTag is reflect.StructTag.Get without importing reflect's conventions wholesale.
func reflectTag(tag, key string) string {
	for tag != "" {
		i := 0
		for i < len(tag) && tag[i] == ' ' {
			i++
		}
		tag = tag[i:]
		if tag == "" {
			break
		}
		i = 0
		for i < len(tag) && tag[i] > ' ' && tag[i] != ':' && tag[i] != '"' {
			i++
		}
		if i == 0 || i+1 >= len(tag) || tag[i] != ':' || tag[i+1] != '"' {
			break
		}
		name := tag[:i]
		tag = tag[i+1:]
		i = 1
		for i < len(tag) && tag[i] != '"' {
			if tag[i] == '\\' {
				i++
			}
			i++
		}
		if i >= len(tag) {
			break
		}
		q := tag[:i+1]
		tag = tag[i+1:]
		if name == key {
			v, err := strconv.Unquote(q)
			if err != nil {
				return ""
			}
			return v
		}
	}
	return ""
}

func (g *gen) twkb(geom *pkg) {
	g.section("TWKB (coq/Model/TWKB.v)")
	g.constsOfType("twkb_type_consts", geom, "twkbGeometryType")
	g.constsOfType("twkb_meta_consts", geom, "twkbMetadataHeader")
	g.namedConst("twkb_max_dimensions", geom, "twkbMaxDimensions")
	g.opTable("twkb_prec_checks", geom, "MarshalTWKB", true, func(fd *ast.FuncDecl) []opc {
		var out []opc
		for _, o := range geom.comparisons(fd.Body, paramEnv(fd)) {
			if o.op == "<" || o.op == ">" || o.op == "<=" || o.op == ">=" {
				if strings.HasPrefix(o.name, "len(") {
					continue
				}
				out = append(out, o)
			}
		}
		return out
	})
	g.listDef("twkb_write_idlist_refused", "string", func() (string, []string) {
		key := "MarshalTWKB"
		fd := geom.fn(key)
		sw := findSwitch(fd, key, firstCaseIs(geom, "TypePoint"))
		var it []string
		for _, c := range clauses(sw) {
			for _, v := range c.List {
				it = append(it, gs(lastName(v, nil)))
			}
		}
		return geom.where(key) + ": geometry types for which an ID list is refused", it
	})
	g.listDef("twkb_write_kinds", "string * string", func() (string, []string) {
		var it []string
		for _, key := range geom.funcOrder {
			fd := geom.funcs[key]
			if fd.Body == nil || recvName(fd) != "twkbWriter" {
				continue
			}
			ast.Inspect(fd.Body, func(n ast.Node) bool {
				if c, ok := n.(*ast.CallExpr); ok && calleeName(c) == "writeTypeAndPrecision" && len(c.Args) == 1 {
					it = append(it, fmt.Sprintf("(%s, %s)", gs(fd.Name.Name), gs(lastName(c.Args[0], nil))))
				}
				return true
			})
		}
		return "geom/twkb_write.go: (method, constant passed to writeTypeAndPrecision), source order", it
	})
	g.opTable("twkb_write_typeprec_ops", geom, "twkbWriter.writeTypeAndPrecision", false, func(fd *ast.FuncDecl) []opc { return geom.bitops(fd.Body) })
	g.listDef("twkb_write_meta_flags", "string * string", func() (string, []string) {
		key := "twkbWriter.writeInitialHeaders"
		var it []string
		ast.Inspect(geom.fn(key).Body, func(n ast.Node) bool {
			is, ok := n.(*ast.IfStmt)
			if !ok || len(is.Body.List) != 1 {
				return true
			}
			a, ok := is.Body.List[0].(*ast.AssignStmt)
			if !ok || a.Tok != token.OR_ASSIGN || len(a.Rhs) != 1 {
				return true
			}
			id, ok := unparen(a.Rhs[0]).(*ast.Ident)
			if !ok {
				return true
			}
			it = append(it, fmt.Sprintf("(%s, %s)", gs(lastName(is.Cond, nil)), gs(id.Name)))
			return true
		})
		return geom.where(key) + ": if w.<field> { metaheader |= <constant> }", it
	})
	g.listDef("twkb_write_empty_flag", "string", func() (string, []string) {
		key := "twkbWriter.writeIsEmptyHeader"
		var it []string
		ast.Inspect(geom.fn(key).Body, func(n ast.Node) bool {
			if c, ok := n.(*ast.CallExpr); ok && calleeName(c) == "writeMetadataHeader" && len(c.Args) == 1 {
				it = append(it, gs(lastName(c.Args[0], nil)))
			}
			return true
		})
		return geom.where(key) + ": constant passed to writeMetadataHeader", it
	})
	g.opTable("twkb_write_extprec_ops", geom, "twkbWriter.writeExtendedPrecision", false, func(fd *ast.FuncDecl) []opc { return geom.bitops(fd.Body) })
	g.strCases("twkb_parse_kind_cases", geom, "twkbParser.nextGeometry", tagEndsIn("kind"), firstCall)
	g.opTable("twkb_parse_typeprec_ops", geom, "twkbParser.parseTypeAndPrecision", false, func(fd *ast.FuncDecl) []opc { return geom.bitops(fd.Body) })
	g.listDef("twkb_parse_meta_flags", "string * string", func() (string, []string) {
		key := "twkbParser.parseMetadataHeader"
		var it []string
		ast.Inspect(geom.fn(key).Body, func(n ast.Node) bool {
			a, ok := n.(*ast.AssignStmt)
			if !ok || len(a.Lhs) != 1 || len(a.Rhs) != 1 {
				return true
			}
			cname := ""
			ast.Inspect(a.Rhs[0], func(m ast.Node) bool {
				if b, ok := m.(*ast.BinaryExpr); ok && b.Op == token.AND {
					for _, side := range []ast.Expr{b.X, b.Y} {
						if id, ok := unparen(side).(*ast.Ident); ok {
							if _, isC := geom.consts[id.Name]; isC {
								cname = id.Name
							}
						}
					}
				}
				return true
			})
			if cname != "" {
				it = append(it, fmt.Sprintf("(%s, %s)", gs(lastName(a.Lhs[0], nil)), gs(cname)))
			}
			return true
		})
		return geom.where(key) + ": p.<field> = (metaheader & <constant>) != 0", it
	})
	g.listDef("twkb_parse_idlist_refused", "string", func() (string, []string) {
		key := "twkbParser.parseMetadataHeader"
		fd := geom.fn(key)
		sw := findSwitch(fd, key, tagEndsIn("kind"))
		var it []string
		for _, c := range clauses(sw) {
			for _, v := range c.List {
				it = append(it, gs(lastName(v, nil)))
			}
		}
		return geom.where(key) + ": kinds for which the ID-list flag is refused", it
	})
	g.opTable("twkb_parse_extprec_ops", geom, "twkbParser.parseExtendedPrecision", false, func(fd *ast.FuncDecl) []opc { return geom.bitops(fd.Body) })

	// ---- the count guards of the parser (fix F7): every call recv.checkCount(_, E) in a method of
	// twkbParser, E = the least number of bytes of one element
	g.listDef("twkb_parse_count_guards", "string * string * Z", func() (string, []string) {
		var it []string
		for _, key := range geom.funcOrder {
			fd := geom.funcs[key]
			if fd.Body == nil || recvName(fd) != "twkbParser" {
				continue
			}
			env := paramEnv(fd)
			var calls []*ast.CallExpr
			ast.Inspect(fd.Body, func(n ast.Node) bool {
				if c, ok := n.(*ast.CallExpr); ok && calleeName(c) == "checkCount" {
					calls = append(calls, c)
				}
				return true
			})
			sort.SliceStable(calls, func(i, j int) bool { return calls[i].Pos() < calls[j].Pos() })
			for _, c := range calls {
				sym, add, ok := "", int64(0), false
				if sel, isSel := unparen(c.Fun).(*ast.SelectorExpr); isSel && len(c.Args) == 2 && !c.Ellipsis.IsValid() {
					if id, isId := unparen(sel.X).(*ast.Ident); isId && env[id.Name] == "recv" {
						sym, add, ok = geom.symPlusConst(c.Args[1])
					}
				}
				if !ok { // not of the shape recv.checkCount(_, [selector] [+ literal]): a row no model matches
					sym, add = "?"+canon(c, env), 0
				}
				it = append(it, fmt.Sprintf("(%s, %s, %s)", gs(fd.Name.Name), gs(sym), gz(add)))
			}
		}
		return "geom: methods of twkbParser, every call recv.checkCount(_, E): (method, the field E mentions or the empty string, the integer E adds), source order", it
	})
	// the shape of checkCount itself: parameter types, the locals (v0, v1, ...) it defines, the comparison of
	// its only `if`, what the two branches return
	g.listDef("twkb_parse_check_count_shape", "string * string", func() (string, []string) {
		key := "twkbParser.checkCount"
		fd := geom.fn(key)
		env := paramEnv(fd)
		var it []string
		row := func(k, v string) { it = append(it, fmt.Sprintf("(%s, %s)", gs(k), gs(v))) }
		var ptypes []string
		if fd.Type.Params != nil {
			for _, f := range fd.Type.Params.List {
				n := len(f.Names)
				if n == 0 {
					n = 1
				}
				for i := 0; i < n; i++ {
					ptypes = append(ptypes, canon(f.Type, nil))
				}
			}
		}
		row("params", strings.Join(ptypes, ","))
		returnsNil := func(s ast.Stmt) (isNil, ok bool) {
			r, isRet := s.(*ast.ReturnStmt)
			if !isRet || len(r.Results) != 1 {
				return false, false
			}
			id, isId := unparen(r.Results[0]).(*ast.Ident)
			return isId && id.Name == "nil", true
		}
		nlocals, nifs := 0, 0
		for i, s := range fd.Body.List {
			switch x := s.(type) {
			case *ast.AssignStmt:
				id, isId := x.Lhs[0].(*ast.Ident)
				if x.Tok != token.DEFINE || len(x.Lhs) != 1 || len(x.Rhs) != 1 || !isId {
					fail("%s: statement %d is not `name := expr`", key, i)
				}
				v := fmt.Sprintf("v%d", nlocals)
				nlocals++
				row(v, canon(x.Rhs[0], env)) // the right-hand side is printed before the name is bound
				env[id.Name] = v
			case *ast.IfStmt:
				nifs++
				b, isBin := unparen(x.Cond).(*ast.BinaryExpr)
				if x.Init != nil || x.Else != nil || !isBin || len(x.Body.List) != 1 {
					fail("%s: the if statement is not `if a OP b { return ... }`", key)
				}
				row("lhs", canon(b.X, env))
				row("op", b.Op.String())
				row("rhs", canon(b.Y, env))
				isNil, ok := returnsNil(x.Body.List[0])
				if !ok {
					fail("%s: the body of the if statement is not a return of one value", key)
				}
				if isNil {
					row("then", "nil")
				} else {
					row("then", "error")
				}
			case *ast.ReturnStmt:
				isNil, ok := returnsNil(x)
				if !ok || i != len(fd.Body.List)-1 {
					fail("%s: unexpected return statement", key)
				}
				if isNil {
					row("else", "nil")
				} else {
					row("else", "error")
				}
			default:
				fail("%s: statement %d is of an unexpected kind %T", key, i, s)
			}
		}
		if nifs != 1 {
			fail("%s: %d if statements", key, nifs)
		}
		return geom.where(key) + ": parameter types; locals v0.. := expr; if lhs op rhs { return then }; return else", it
	})
	// p.dimensions (the operand of two of the guards): the value the constructor gives it and the values the
	// cases of the tagless switch of parseExtendedPrecision assign, with the coordinates type set alongside
	g.listDef("twkb_parse_dimensions", "string * string * Z", func() (string, []string) {
		var it []string
		row := func(cond, ct string, d int64) { it = append(it, fmt.Sprintf("(%s, %s, %s)", gs(cond), gs(ct), gz(d))) }
		ckey, pkey := "newTWKBParser", "twkbParser.parseExtendedPrecision"
		// newTWKBParser: twkbParser{..., ctype: DimXY, dimensions: 2}
		var lit *ast.CompositeLit
		ast.Inspect(geom.fn(ckey).Body, func(n ast.Node) bool {
			if c, ok := n.(*ast.CompositeLit); ok && lit == nil {
				if id, ok := c.Type.(*ast.Ident); ok && id.Name == "twkbParser" {
					lit = c
				}
			}
			return true
		})
		if lit == nil {
			fail("%s: no twkbParser{...} literal", ckey)
		}
		ct, dims, seen := "", int64(0), 0
		for _, e := range lit.Elts {
			kv, ok := e.(*ast.KeyValueExpr)
			if !ok {
				fail("%s: positional composite literal", ckey)
			}
			switch lastName(kv.Key, nil) {
			case "ctype":
				ct = lastName(kv.Value, nil)
				seen |= 1
			case "dimensions":
				dims = geom.mustInt(kv.Value, ckey)
				seen |= 2
			}
		}
		if seen != 3 {
			fail("%s: the literal does not set both ctype and dimensions", ckey)
		}
		row("", ct, dims)
		fd := geom.fn(pkey)
		env := paramEnv(fd)
		sw := findSwitch(fd, pkey, func(s *ast.SwitchStmt) bool { return s.Tag == nil })
		inSwitch := 0
		for _, c := range clauses(sw) {
			cond := "default"
			if len(c.List) == 1 {
				cond = canon(c.List[0], env)
			} else if len(c.List) > 1 {
				fail("%s: a case with %d conditions", pkey, len(c.List))
			}
			ct, dims, seen := "", int64(0), 0
			for _, s := range c.Body {
				a, ok := s.(*ast.AssignStmt)
				if !ok || len(a.Lhs) != 1 || len(a.Rhs) != 1 {
					continue
				}
				switch lastName(a.Lhs[0], nil) {
				case "ctype":
					if a.Tok != token.ASSIGN {
						fail("%s: ctype is not plainly assigned", pkey)
					}
					ct = lastName(a.Rhs[0], nil)
					seen |= 1
				case "dimensions":
					if a.Tok != token.ASSIGN {
						fail("%s: dimensions is not plainly assigned", pkey)
					}
					dims = geom.mustInt(a.Rhs[0], pkey)
					seen |= 2
					inSwitch++
				}
			}
			if seen != 3 {
				fail("%s: case %s does not set both ctype and dimensions", pkey, cond)
			}
			row(cond, ct, dims)
		}
		// any other place where a method of twkbParser (or the constructor) writes p.dimensions
		total := 0
		for _, key := range geom.funcOrder {
			fd := geom.funcs[key]
			if fd.Body == nil || (recvName(fd) != "twkbParser" && key != ckey) {
				continue
			}
			isDims := func(e ast.Expr) bool {
				sel, ok := unparen(e).(*ast.SelectorExpr)
				return ok && sel.Sel.Name == "dimensions"
			}
			ast.Inspect(fd.Body, func(n ast.Node) bool {
				switch x := n.(type) {
				case *ast.AssignStmt:
					for _, l := range x.Lhs {
						if isDims(l) {
							total++
						}
					}
				case *ast.IncDecStmt:
					if isDims(x.X) {
						total++
					}
				case *ast.UnaryExpr:
					if x.Op == token.AND && isDims(x.X) {
						total++
					}
				}
				return true
			})
		}
		if total != inSwitch {
			row("?", fmt.Sprintf("%d further assignments to dimensions", total-inSwitch), -1)
		}
		return fmt.Sprintf("%s (literal) and %s (tagless switch): (condition, ctype, dimensions)", geom.where(ckey), geom.where(pkey)), it
	})
}

// symPlusConst splits E into at most one field/identifier and an integer: p.dimensions -> ("dimensions", 0),
// 1 -> ("", 1), 1+p.dimensions -> ("dimensions", 1).  Conversions to the built-in integer types are looked through.
func (p *pkg) symPlusConst(e ast.Expr) (sym string, add int64, ok bool) {
	var terms []ast.Expr
	var flat func(e ast.Expr)
	flat = func(e ast.Expr) {
		e = unparen(e)
		if b, isBin := e.(*ast.BinaryExpr); isBin && b.Op == token.ADD {
			if _, isConst := p.intOf(e); !isConst {
				flat(b.X)
				flat(b.Y)
				return
			}
		}
		if c, isCall := e.(*ast.CallExpr); isCall && len(c.Args) == 1 && !c.Ellipsis.IsValid() {
			if id, isId := c.Fun.(*ast.Ident); isId {
				switch id.Name {
				case "int", "int64", "uint64", "uint", "int32", "uint32":
					flat(c.Args[0])
					return
				}
			}
		}
		terms = append(terms, e)
	}
	flat(e)
	nsym := 0
	for _, t := range terms {
		if v, isConst := p.intOf(t); isConst {
			add += v
			continue
		}
		switch x := t.(type) {
		case *ast.Ident:
			sym = x.Name
		case *ast.SelectorExpr:
			if _, isId := unparen(x.X).(*ast.Ident); !isId {
				return "", 0, false
			}
			sym = x.Sel.Name
		default:
			return "", 0, false
		}
		nsym++
	}
	if nsym > 1 {
		return "", 0, false
	}
	return sym, add, true
}

// ---- Relate

// condition language of the dimension switches of Crosses / Overlaps
func (p *pkg) cexp(e ast.Expr, vars map[string]int, env map[string]string) string {
	e = unparen(e)
	if v, ok := p.intOf(e); ok {
		return "CLit " + gz(v)
	}
	switch x := e.(type) {
	case *ast.Ident:
		if i, ok := vars[x.Name]; ok {
			return fmt.Sprintf("CVar %d", i)
		}
	case *ast.UnaryExpr:
		if x.Op == token.NOT {
			return "CNot (" + p.cexp(x.X, vars, env) + ")"
		}
	case *ast.BinaryExpr:
		c := map[token.Token]string{token.LSS: "CLt", token.GTR: "CGt", token.LEQ: "CLe", token.GEQ: "CGe",
			token.EQL: "CEq", token.NEQ: "CNe", token.LAND: "CAnd", token.LOR: "COr"}[x.Op]
		if c != "" {
			return c + " (" + p.cexp(x.X, vars, env) + ") (" + p.cexp(x.Y, vars, env) + ")"
		}
	}
	return "CUnknown " + gs(canon(e, env))
}

func (p *pkg) patternArgs(c *ast.CallExpr, what string) []string {
	var pats []string
	if len(c.Args) < 2 {
		fail("%s: relateMatchesAnyPattern with %d arguments", what, len(c.Args))
	}
	for _, a := range c.Args[2:] {
		pats = append(pats, p.mustStr(a, what))
	}
	return pats
}

func (g *gen) relate(geom *pkg) {
	g.section("DE-9IM (coq/Model/RelatePatterns.v, coq/Model/Relate.v)")
	const matcher = "relateMatchesAnyPattern"
	var predFuncs []string
	for _, key := range geom.funcOrder {
		fd := geom.funcs[key]
		if fd.Body == nil || fd.Name.Name == matcher {
			continue
		}
		uses := false
		ast.Inspect(fd.Body, func(n ast.Node) bool {
			if c, ok := n.(*ast.CallExpr); ok && calleeName(c) == matcher {
				uses = true
			}
			return true
		})
		if uses {
			predFuncs = append(predFuncs, key)
		}
	}
	g.listDef("relate_patterns", "string * list string", func() (string, []string) {
		var it []string
		for _, key := range predFuncs {
			var pats []string
			ast.Inspect(geom.funcs[key].Body, func(n ast.Node) bool {
				if c, ok := n.(*ast.CallExpr); ok && calleeName(c) == matcher {
					pats = append(pats, geom.patternArgs(c, key)...)
				}
				return true
			})
			it = append(it, fmt.Sprintf("(%s, %s)", gs(key), gstrs(pats)))
		}
		return "geom/alg_relate.go: every function calling relateMatchesAnyPattern, with its pattern literals, source order", it
	})
	g.listDef("relate_guards", "string * list (string * bool)", func() (string, []string) {
		var it []string
		for _, key := range predFuncs {
			fd := geom.funcs[key]
			env := paramEnv(fd)
			var gs_ []string
			for _, s := range fd.Body.List {
				is, ok := s.(*ast.IfStmt)
				if !ok || is.Init != nil || len(is.Body.List) != 1 {
					continue
				}
				r, ok := is.Body.List[0].(*ast.ReturnStmt)
				if !ok || len(r.Results) < 1 {
					continue
				}
				id, ok := unparen(r.Results[0]).(*ast.Ident)
				if !ok || (id.Name != "true" && id.Name != "false") {
					continue
				}
				gs_ = append(gs_, fmt.Sprintf("(%s, %s)", gs(canon(is.Cond, env)), id.Name))
			}
			body := "[]"
			if len(gs_) > 0 {
				body = "[" + strings.Join(gs_, "; ") + "]"
			}
			it = append(it, fmt.Sprintf("(%s, %s)", gs(key), body))
		}
		return "geom/alg_relate.go: early `if cond { return <bool>, nil }` of each predicate (function arguments renamed p0, p1)", it
	})
	dimSwitch := func(prefix, key string) {
		var fd *ast.FuncDecl
		vars := map[string]int{}
		var varDefs []string
		var env map[string]string
		prep := func() {
			fd = geom.fn(key)
			env = paramEnv(fd)
			vars = map[string]int{}
			varDefs = nil
			for _, s := range fd.Body.List {
				a, ok := s.(*ast.AssignStmt)
				if !ok || a.Tok != token.DEFINE || len(a.Lhs) != 1 || len(a.Rhs) != 1 {
					continue
				}
				id, ok := a.Lhs[0].(*ast.Ident)
				if !ok {
					continue
				}
				vars[id.Name] = len(varDefs)
				varDefs = append(varDefs, gs(canon(a.Rhs[0], env)))
			}
		}
		g.listDef(prefix+"_vars", "string", func() (string, []string) {
			prep()
			return geom.where(key) + ": local variables CVar 0, CVar 1, ... (function arguments renamed p0, p1)", varDefs
		})
		g.listDef(prefix+"_cases", "cexp * cbody", func() (string, []string) {
			prep()
			sw := findSwitch(fd, key, func(s *ast.SwitchStmt) bool { return s.Tag == nil })
			var it []string
			for _, c := range clauses(sw) {
				cond := "CTrue"
				for i, e := range c.List {
					ce := geom.cexp(e, vars, env)
					if i == 0 {
						cond = ce
					} else {
						cond = "COr (" + cond + ") (" + ce + ")"
					}
				}
				body := "BUnknown"
				if len(c.Body) > 0 {
					if r, ok := c.Body[0].(*ast.ReturnStmt); ok && len(r.Results) >= 1 {
						switch x := unparen(r.Results[0]).(type) {
						case *ast.CallExpr:
							if calleeName(x) == matcher {
								body = "BMatch " + gstrs(geom.patternArgs(x, key))
							}
						case *ast.Ident:
							if x.Name == "true" || x.Name == "false" {
								body = "BConst " + x.Name
							}
						}
					}
				}
				it = append(it, fmt.Sprintf("(%s, %s)", cond, body))
			}
			return geom.where(key) + ": the tagless switch, one entry per case, source order", it
		})
	}
	dimSwitch("relate_crosses", "Crosses")
	dimSwitch("relate_overlaps", "Overlaps")

	g.optS("relate_empty_dimfun", func() (string, string) {
		fd := geom.fn("Relate")
		sw := findSwitch(fd, "Relate", func(s *ast.SwitchStmt) bool {
			_, ok := unparen(s.Tag).(*ast.CallExpr)
			return ok
		})
		return geom.where("Relate") + ": function whose result selects the matrix of an empty operand", calleeName(unparen(sw.Tag).(*ast.CallExpr))
	})
	g.listDef("relate_empty_sets", "Z * string * string * Z * Z", func() (string, []string) {
		fd := geom.fn("Relate")
		var it []string
		var walk func(n ast.Node, caseVal int64, ifDepth int64)
		walk = func(n ast.Node, caseVal int64, ifDepth int64) {
			ast.Inspect(n, func(m ast.Node) bool {
				switch x := m.(type) {
				case *ast.IfStmt:
					if x.Init != nil {
						walk(x.Init, caseVal, ifDepth)
					}
					walk(x.Body, caseVal, ifDepth+1)
					if x.Else != nil {
						walk(x.Else, caseVal, ifDepth+1)
					}
					return false
				case *ast.CaseClause:
					cv := int64(-2)
					if len(x.List) == 1 {
						cv = geom.mustInt(x.List[0], "Relate")
					}
					for _, s := range x.Body {
						walk(s, cv, ifDepth)
					}
					return false
				case *ast.CallExpr:
					if calleeName(x) == "set" && len(x.Args) == 3 {
						it = append(it, fmt.Sprintf("(%s, %s, %s, %s, %s)", gz(caseVal), gs(lastName(x.Args[0], nil)),
							gs(lastName(x.Args[1], nil)), gz(geom.mustInt(x.Args[2], "Relate")), gz(ifDepth)))
					}
				}
				return true
			})
		}
		walk(fd.Body, -1, 0)
		return geom.where("Relate") + ": im.set(row, col, entry) calls: (switch case or -1, row, col, entry, number of enclosing ifs)", it
	})
	g.constsOfType("de9im_loc_consts", geom, "imLocation")
	g.optZ("de9im_index_stride", func() (string, int64) {
		key := "matrix.index"
		var vals []int64
		ast.Inspect(geom.fn(key).Body, func(n ast.Node) bool {
			if b, ok := n.(*ast.BinaryExpr); ok && b.Op == token.MUL {
				if v, ok := geom.intOf(b.X); ok {
					vals = append(vals, v)
				} else if v, ok := geom.intOf(b.Y); ok {
					vals = append(vals, v)
				}
			}
			return true
		})
		if len(vals) != 1 {
			fail("%s: expected one product with a constant", key)
		}
		return geom.where(key) + ": K*locA + locB", vals[0]
	})
	g.listDef("de9im_new_matrix", "Z", func() (string, []string) {
		key := "newMatrix"
		lit := arrayLit(geom.fn(key), "byte", key)
		var it []string
		for _, e := range lit.Elts {
			it = append(it, gz(geom.mustInt(e, key)))
		}
		return geom.where(key), []string{strings.Join(it, "; ")}
	})
	rmSwitches := func() (patSw, matSw *ast.SwitchStmt) {
		fd := geom.fn("RelateMatches")
		for _, s := range switches(fd.Body) {
			if s.Tag == nil {
				continue
			}
			multi, allIf := false, true
			for _, c := range clauses(s) {
				if len(c.List) >= 2 && len(c.Body) == 0 {
					multi = true
				}
				if len(c.List) > 0 {
					if len(c.List) != 1 || len(c.Body) != 1 {
						allIf = false
					} else if _, ok := c.Body[0].(*ast.IfStmt); !ok {
						allIf = false
					}
				}
			}
			if multi && patSw == nil {
				patSw = s
			} else if allIf && matSw == nil {
				matSw = s
			}
		}
		if patSw == nil || matSw == nil {
			fail("RelateMatches: the two switches (pattern characters, matrix characters) not found")
		}
		return
	}
	g.listDef("de9im_pattern_chars", "Z", func() (string, []string) {
		sw, _ := rmSwitches()
		var it []string
		for _, c := range clauses(sw) {
			for _, v := range c.List {
				it = append(it, gz(geom.mustInt(v, "RelateMatches")))
			}
		}
		return geom.where("RelateMatches") + ": characters accepted in a pattern", []string{strings.Join(it, "; ")}
	})
	g.listDef("de9im_match_cases", "Z * list Z", func() (string, []string) {
		_, sw := rmSwitches()
		var it []string
		for _, c := range clauses(sw) {
			if len(c.List) == 0 {
				continue
			}
			is := c.Body[0].(*ast.IfStmt)
			var allowed []int64
			var collect func(e ast.Expr)
			collect = func(e ast.Expr) {
				b, ok := unparen(e).(*ast.BinaryExpr)
				if !ok {
					fail("RelateMatches: unexpected condition %s", canon(e, nil))
				}
				switch b.Op {
				case token.LAND:
					collect(b.X)
					collect(b.Y)
				case token.NEQ:
					allowed = append(allowed, geom.mustInt(b.Y, "RelateMatches"))
				default:
					fail("RelateMatches: unexpected condition %s", canon(e, nil))
				}
			}
			collect(is.Cond)
			if len(is.Body.List) != 1 {
				fail("RelateMatches: unexpected if body")
			}
			r, ok := is.Body.List[0].(*ast.ReturnStmt)
			if !ok || len(r.Results) != 2 || canon(r.Results[0], nil) != "false" || canon(r.Results[1], nil) != "nil" {
				fail("RelateMatches: the mismatch branch is not `return false, nil`")
			}
			it = append(it, fmt.Sprintf("(%s, %s)", gz(geom.mustInt(c.List[0], "RelateMatches")), gzs(allowed)))
		}
		return geom.where("RelateMatches") + ": matrix character -> pattern characters it matches", it
	})
	g.listDef("de9im_length_checks", "string * string * Z", func() (string, []string) {
		fd := geom.fn("RelateMatches")
		var it []string
		for _, o := range geom.comparisons(fd.Body, paramEnv(fd)) {
			if strings.HasPrefix(o.name, "len(") {
				it = append(it, fmt.Sprintf("(%s, %s, %s)", gs("len"), gs(o.op), gz(o.val)))
			}
		}
		return geom.where("RelateMatches") + ": length tests", it
	})
}

func (g *gen) rtree(rt *pkg) {
	g.section("R-tree (coq/Model/RTree.v)")
	g.namedConst("rtree_min_entries", rt, "minEntries")
	g.namedConst("rtree_max_entries", rt, "maxEntries")
	g.optS("rtree_node_entries_len", func() (string, string) {
		res := ""
		for _, n := range rt.fileNames {
			ast.Inspect(rt.files[n], func(m ast.Node) bool {
				ts, ok := m.(*ast.TypeSpec)
				if !ok || ts.Name.Name != "node" {
					return true
				}
				if st, ok := ts.Type.(*ast.StructType); ok {
					for _, f := range st.Fields.List {
						for _, nm := range f.Names {
							if at, ok := f.Type.(*ast.ArrayType); ok && nm.Name == "entries" {
								res = canon(at.Len, nil)
							}
						}
					}
				}
				return false
			})
		}
		if res == "" {
			fail("struct node without an array field `entries`")
		}
		return "rtree/rtree.go: length of node.entries", res
	})
	g.opTable("rtree_bulk_thresholds", rt, "bulkInsert", false, func(fd *ast.FuncDecl) []opc {
		var out []opc
		for _, o := range rt.comparisons(fd.Body, paramEnv(fd)) {
			if o.name == "len(p0)" {
				out = append(out, o)
			}
		}
		return out
	})
	g.listDef("rtree_lcg", "Z", func() (string, []string) {
		key := "quickPartition"
		fd := rt.fn(key)
		var it []string
		ast.Inspect(fd.Body, func(n ast.Node) bool {
			a, ok := n.(*ast.AssignStmt)
			if !ok || a.Tok != token.ASSIGN || len(a.Lhs) != 1 || len(a.Rhs) != 1 || len(it) > 0 {
				return true
			}
			lhs, ok := a.Lhs[0].(*ast.Ident)
			if !ok {
				return true
			}
			sum, ok := unparen(a.Rhs[0]).(*ast.BinaryExpr)
			if !ok || sum.Op != token.ADD {
				return true
			}
			prod, ok := unparen(sum.X).(*ast.BinaryExpr)
			if !ok || prod.Op != token.MUL {
				return true
			}
			var mult ast.Expr
			if id, ok := unparen(prod.Y).(*ast.Ident); ok && id.Name == lhs.Name {
				mult = prod.X
			} else if id, ok := unparen(prod.X).(*ast.Ident); ok && id.Name == lhs.Name {
				mult = prod.Y
			} else {
				return true
			}
			it = []string{gz(rt.mustInt(mult, key)), gz(rt.mustInt(sum.Y, key))}
			return true
		})
		return rt.where(key) + ": state = A*state + C, [A; C]", it
	})
	g.optS("rtree_lcg_state_type", func() (string, string) {
		key := "quickPartition"
		fd := rt.fn(key)
		// the variable assigned by the `state = A*state + C` statement
		state := ""
		ast.Inspect(fd.Body, func(n ast.Node) bool {
			if a, ok := n.(*ast.AssignStmt); ok && a.Tok == token.ASSIGN && len(a.Lhs) == 1 && len(a.Rhs) == 1 && state == "" {
				if id, ok := a.Lhs[0].(*ast.Ident); ok {
					if sum, ok := unparen(a.Rhs[0]).(*ast.BinaryExpr); ok && sum.Op == token.ADD {
						if prod, ok := unparen(sum.X).(*ast.BinaryExpr); ok && prod.Op == token.MUL {
							state = id.Name
						}
					}
				}
			}
			return true
		})
		typ := ""
		ast.Inspect(fd.Body, func(n ast.Node) bool {
			if vs, ok := n.(*ast.ValueSpec); ok {
				for _, nm := range vs.Names {
					if nm.Name == state && vs.Type != nil {
						typ = canon(vs.Type, nil)
					}
				}
			}
			return true
		})
		if state == "" || typ == "" {
			fail("%s: declaration `var <state> <type>` not found", key)
		}
		return rt.where(key) + ": type of the generator state", typ
	})
	g.optZ("rtree_lcg_shift", func() (string, int64) {
		key := "quickPartition"
		fd := rt.fn(key)
		var vals []int64
		ast.Inspect(fd.Body, func(n ast.Node) bool {
			if fl, ok := n.(*ast.FuncLit); ok && len(vals) == 0 {
				for _, o := range rt.bitops(fl.Body) {
					if o.op == ">>" {
						vals = append(vals, o.val)
					}
				}
			}
			return true
		})
		if len(vals) != 1 {
			fail("%s: expected one `>> K` in the first closure", key)
		}
		return rt.where(key) + ": rnd(n) = (state*n) >> K", vals[0]
	})
	g.listDef("rtree_qp_small_cases", "Z", func() (string, []string) {
		key := "quickPartition"
		fd := rt.fn(key)
		sw := findSwitch(fd, key, tagHasOp(token.SUB))
		var it []string
		for _, c := range clauses(sw) {
			for _, v := range c.List {
				it = append(it, gz(rt.mustInt(v, key)))
			}
		}
		return rt.where(key) + ": switch right - left, special-cased sizes", it
	})
}

const prelude = `(* GENERATED FILE - do not edit.  Written by tools/gen_consts (tools/gen_consts.sh) from the Go
   source of the library under test, on every run of tools/check.py.  Each definition is a literal
   table of the implementation, taken from the syntax tree.  The obligations that the hand-written
   models use the same values are in coq/Proofs/Consts_tie_*.v.  A table that could not be located
   is set to a sentinel ([] or None), which breaks its obligation. *)
From Coq Require Import NArith ZArith List String.
Import ListNotations.
Open Scope string_scope.

(* conditions of a tagless switch over local variables (CVar i) and integer literals *)
Inductive cexp :=
| CVar (i : nat) | CLit (z : Z) | CTrue
| CLt (a b : cexp) | CGt (a b : cexp) | CLe (a b : cexp) | CGe (a b : cexp)
| CEq (a b : cexp) | CNe (a b : cexp) | CAnd (a b : cexp) | COr (a b : cexp) | CNot (a : cexp)
| CUnknown (s : string).
(* what a case of such a switch does: return relateMatchesAnyPattern(a, b, pats...), return a
   literal boolean, or something else *)
Inductive cbody := BMatch (pats : list string) | BConst (b : bool) | BUnknown.

`

func main() {
	repo := flag.String("repo", "", "root of the Go source tree (default $VERIF_REPO or /repo)")
	outp := flag.String("o", "-", "output file ('-' = stdout)")
	flag.Parse()
	if *repo == "" {
		*repo = os.Getenv("VERIF_REPO")
	}
	if *repo == "" {
		*repo = "/repo"
	}
	geom := load(*repo, "geom")
	rt := load(*repo, "rtree")
	g := &gen{}
	g.buf.WriteString(prelude)
	g.base(geom)
	g.wkb(geom)
	g.wkt(geom)
	g.geojson(geom)
	g.twkb(geom)
	g.relate(geom)
	g.rtree(rt)
	fmt.Fprintf(&g.buf, "(* %d tables, %d not found *)\n", g.count, g.lost)
	out := g.buf.Bytes()
	if *outp == "-" {
		os.Stdout.Write(out)
	} else if err := os.WriteFile(*outp, out, 0o644); err != nil {
		fmt.Fprintln(os.Stderr, "gen_consts:", err)
		os.Exit(2)
	}
	fmt.Fprintf(os.Stderr, "gen_consts: %d tables from %s, %d not found\n", g.count, *repo, g.lost)
}
