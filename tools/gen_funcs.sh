#!/bin/sh
# Regenerates coq/Gen/Funcs.v, coq/Gen/FuncsCarto.v, coq/Gen/FuncsLoop.v and coq/Gen/FuncsInt.v from the Go source under
# $VERIF_REPO (default /repo); see DESIGN.md A.8 and tools/gen_funcs/main.go.  Funcs.v: the kernel
# functions of rtree and geom over the carrier of coq/Base/FOps.v; FuncsCarto.v: the nine projections of
# package carto over the carrier of coq/Base/FOpsT.v (tie: coq/Proofs/Funcs_tie_Carto.v, property C19);
# FuncsLoop.v: functions of geom WITH LOOPS over sequences (coq/Base/FLoop.v; ties:
# coq/Proofs/Funcs_tie_Loop_*.v, properties C09 C12 C14 C17 C18); FuncsInt.v: integer / bit level functions
# (varints of TWKB incl. encoding/binary of the toolchain in use, R-tree bounds; coq/Base/FInt.v; ties:
# coq/Proofs/Funcs_tie_Int_*.v, properties C07 C11).
# Idempotent: a file is replaced only when its content changes, so that `make` rebuilds the tie files
# (coq/Proofs/Funcs_tie_*.v) only after a change of a translated body.
# If the generator itself cannot run, all four files are removed: the tie files then fail to compile,
# which the orchestrator reports as a broken proof obligation (never a stale, silently passing tie).
# Output paths can be overridden (scratch runs): GEN_FUNCS_OUT, GEN_FUNCS_CARTO_OUT, GEN_FUNCS_LOOP_OUT, GEN_FUNCS_INT_OUT.
set -u
VERIF=$(cd "$(dirname "$0")/.." && pwd)
REPO=${VERIF_REPO:-/repo}
OUT=${GEN_FUNCS_OUT:-$VERIF/coq/Gen/Funcs.v}
OUTC=${GEN_FUNCS_CARTO_OUT:-$VERIF/coq/Gen/FuncsCarto.v}
OUTL=${GEN_FUNCS_LOOP_OUT:-$VERIF/coq/Gen/FuncsLoop.v}
OUTI=${GEN_FUNCS_INT_OUT:-$VERIF/coq/Gen/FuncsInt.v}
export GOFLAGS=-mod=mod GOPROXY=off GOSUMDB=off GOTOOLCHAIN=local
mkdir -p "$(dirname "$OUT")" "$(dirname "$OUTC")" "$(dirname "$OUTL")" "$(dirname "$OUTI")"
TMP=$(mktemp "${TMPDIR:-/tmp}/Funcs.XXXXXX") || exit 2
TMPC=$(mktemp "${TMPDIR:-/tmp}/FuncsCarto.XXXXXX") || exit 2
TMPL=$(mktemp "${TMPDIR:-/tmp}/FuncsLoop.XXXXXX") || exit 2
TMPI=$(mktemp "${TMPDIR:-/tmp}/FuncsInt.XXXXXX") || exit 2
trap 'rm -f "$TMP" "$TMPC" "$TMPL" "$TMPI"' EXIT
if ! (cd "$VERIF/tools/gen_funcs" && go run . -repo "$REPO" -o "$TMP" -ocarto "$TMPC" -oloop "$TMPL" -oint "$TMPI"); then
    echo "gen_funcs.sh: generator failed; removing $OUT, $OUTC, $OUTL and $OUTI" >&2
    rm -f "$OUT" "$OUTC" "$OUTL" "$OUTI"
    exit 2
fi
for pair in "$TMP|$OUT" "$TMPC|$OUTC" "$TMPL|$OUTL" "$TMPI|$OUTI"; do
    src=${pair%%|*}
    dst=${pair#*|}
    if [ -f "$dst" ] && cmp -s "$src" "$dst"; then
        echo "gen_funcs.sh: $dst unchanged"
    else
        cp "$src" "$dst" && chmod 644 "$dst"
        echo "gen_funcs.sh: $dst rewritten"
    fi
done
