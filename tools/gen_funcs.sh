#!/bin/sh
# Regenerates coq/Gen/Funcs.v from the Go source under $VERIF_REPO (default /repo); see DESIGN.md A.8
# and tools/gen_funcs/main.go.  Idempotent: the file is replaced only when its content changes, so
# that `make` rebuilds the tie files (coq/Proofs/Funcs_tie_*.v) only after a change of a translated body.
# If the generator itself cannot run, Funcs.v is removed: the tie files then fail to compile,
# which the orchestrator reports as a broken proof obligation (never a stale, silently passing tie).
set -u
VERIF=$(cd "$(dirname "$0")/.." && pwd)
REPO=${VERIF_REPO:-/repo}
OUT=${GEN_FUNCS_OUT:-$VERIF/coq/Gen/Funcs.v}
export GOFLAGS=-mod=mod GOPROXY=off GOSUMDB=off GOTOOLCHAIN=local
mkdir -p "$(dirname "$OUT")"
TMP=$(mktemp "${TMPDIR:-/tmp}/Funcs.XXXXXX") || exit 2
trap 'rm -f "$TMP"' EXIT
if ! (cd "$VERIF/tools/gen_funcs" && go run . -repo "$REPO" -o "$TMP"); then
    echo "gen_funcs.sh: generator failed; removing $OUT" >&2
    rm -f "$OUT"
    exit 2
fi
if [ -f "$OUT" ] && cmp -s "$TMP" "$OUT"; then
    echo "gen_funcs.sh: $OUT unchanged"
else
    cp "$TMP" "$OUT" && chmod 644 "$OUT"
    echo "gen_funcs.sh: $OUT rewritten"
fi
