#!/bin/sh
# Regenerates coq/Gen/Funcs.v and coq/Gen/FuncsCarto.v from the Go source under $VERIF_REPO (default
# /repo); see DESIGN.md A.8 and tools/gen_funcs/main.go.  Funcs.v: the kernel functions of rtree and
# geom over the carrier of coq/Base/FOps.v; FuncsCarto.v: the nine projections of package carto over the
# carrier of coq/Base/FOpsT.v (tie: coq/Proofs/Funcs_tie_Carto.v, property C19).
# Idempotent: a file is replaced only when its content changes, so that `make` rebuilds the tie files
# (coq/Proofs/Funcs_tie_*.v) only after a change of a translated body.
# If the generator itself cannot run, both files are removed: the tie files then fail to compile,
# which the orchestrator reports as a broken proof obligation (never a stale, silently passing tie).
# Output paths can be overridden (scratch runs): GEN_FUNCS_OUT, GEN_FUNCS_CARTO_OUT.
set -u
VERIF=$(cd "$(dirname "$0")/.." && pwd)
REPO=${VERIF_REPO:-/repo}
OUT=${GEN_FUNCS_OUT:-$VERIF/coq/Gen/Funcs.v}
OUTC=${GEN_FUNCS_CARTO_OUT:-$VERIF/coq/Gen/FuncsCarto.v}
export GOFLAGS=-mod=mod GOPROXY=off GOSUMDB=off GOTOOLCHAIN=local
mkdir -p "$(dirname "$OUT")" "$(dirname "$OUTC")"
TMP=$(mktemp "${TMPDIR:-/tmp}/Funcs.XXXXXX") || exit 2
TMPC=$(mktemp "${TMPDIR:-/tmp}/FuncsCarto.XXXXXX") || exit 2
trap 'rm -f "$TMP" "$TMPC"' EXIT
if ! (cd "$VERIF/tools/gen_funcs" && go run . -repo "$REPO" -o "$TMP" -ocarto "$TMPC"); then
    echo "gen_funcs.sh: generator failed; removing $OUT and $OUTC" >&2
    rm -f "$OUT" "$OUTC"
    exit 2
fi
for pair in "$TMP|$OUT" "$TMPC|$OUTC"; do
    src=${pair%%|*}
    dst=${pair#*|}
    if [ -f "$dst" ] && cmp -s "$src" "$dst"; then
        echo "gen_funcs.sh: $dst unchanged"
    else
        cp "$src" "$dst" && chmod 644 "$dst"
        echo "gen_funcs.sh: $dst rewritten"
    fi
done
