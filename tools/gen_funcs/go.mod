module gen_funcs

go 1.23
