// The integer fragment (fourth output, coq/Gen/FuncsInt.v): fixed-width integers as Z with explicit
// wrap-around, the bit operators, condition-only `for` loops, byte slices, arguments the callee writes
// through.  See the header comment of main.go and coq/Base/FInt.v.
package main

import (
	"bytes"
	"fmt"
	"go/ast"
	"go/constant"
	"go/token"
	"os"
	"os/exec"
	"path/filepath"
	"runtime"
	"strings"
)

// what the fourth output translates (callees are translated on demand before their callers)
var intRoots = []root{
	// geom/twkb.go: zig-zag
	{"geom", "encodeZigZagInt64", false}, {"geom", "decodeZigZagInt64", false},
	// encoding/binary (standard library of the toolchain): the varint writers and readers TWKB uses
	{"GOROOT:encoding/binary", "PutUvarint", false}, {"GOROOT:encoding/binary", "Uvarint", false},
	{"GOROOT:encoding/binary", "PutVarint", false}, {"GOROOT:encoding/binary", "Varint", false},
	// geom/twkb_write.go, geom/twkb_parser.go: their callers
	{"geom", "twkbWriter.writeUnsignedVarint", false}, {"geom", "twkbWriter.writeSignedVarint", false},
	{"geom", "twkbParser.parseUnsignedVarint", false}, {"geom", "twkbParser.parseSignedVarint", false},
	// rtree/box.go, rtree/bulk.go, rtree/rtree.go
	{"rtree", "calculateBound", false}, {"rtree", "itemsAreHorizontal", false},
	{"rtree", "RTree.Count", false}, {"rtree", "RTree.Extent", false},
	// geom/twkb_parser.go: the guard every element count read from untrusted input goes through
	{"geom", "twkbParser.checkCount", false},
	// geom/wkb_parser.go: the byte reader (parseUint32 and parseByteOrder were probed and are outside the fragment:
	// binary.BigEndian / the package variable nativeOrder)
	{"geom", "wkbParser.readByte", false},
	// Not listed, because outside the fragment (each would be `untranslatable`):
	//  - rtree/bulk.go:quickPartition: a function without results whose func literals rnd / swap assign the
	//    variables they capture (rndState, items) and whose outer loop `for { .. }` has no condition from which
	//    a bound on the number of iterations could be derived;
	//  - rtree/bulk.go:splitBulkItems2Ways: calls quickPartition (its own arithmetic is len(items)/2 and two
	//    slice expressions);
	//  - rtree/rtree.go:RTree.RangeSearch: recursion through the func-valued variable `recurse` over the
	//    pointer-linked node tree (the recursive call is reached through a bounds-checked n.entries[i].child, so
	//    there is no argument Coq accepts as structurally decreasing without an invented fuel), and a callback
	//    whose error VALUES matter (errors.Is(err, Stop)); errors are translated as "is nil" booleans only.
}

var intKinds = map[string]bool{"int": true, "int8": true, "int16": true, "int32": true, "int64": true,
	"uint": true, "uint8": true, "uint16": true, "uint32": true, "uint64": true, "byte": true, "rune": true}

// further names the fourth output must not bind
var intReserved = map[string]bool{"wrap_u8": true, "wrap_u16": true, "wrap_u32": true, "wrap_u64": true,
	"wrap_i8": true, "wrap_i16": true, "wrap_i32": true, "wrap_i64": true, "while_loop": true,
	"slice_to": true, "slice_from": true, "slice_range": true}

type needOut int // the function writes through argument number needOut: its final value must be returned

const needOutMarker = "\x00writes through argument "

var gorootDir string

func goroot() string {
	if gorootDir == "" {
		gorootDir = os.Getenv("GEN_FUNCS_GOROOT") // scratch runs (self-test on a copy of encoding/binary)
	}
	if gorootDir == "" {
		if out, err := exec.Command("go", "env", "GOROOT").Output(); err == nil {
			gorootDir = strings.TrimSpace(string(out))
		}
		if gorootDir == "" {
			gorootDir = runtime.GOROOT()
		}
	}
	return filepath.Clean(gorootDir)
}

// the width and signedness of an integer kind (int and uint are 64 bits wide: the platforms the library
// is tested on; stated in the header of the output)
func intWidth(ik string) (bits int, signed bool) {
	switch ik {
	case "int8":
		return 8, true
	case "int16":
		return 16, true
	case "int32":
		return 32, true
	case "int64", "int":
		return 64, true
	case "uint8":
		return 8, false
	case "uint16":
		return 16, false
	case "uint32":
		return 32, false
	case "uint64", "uint":
		return 64, false
	}
	return 0, false
}

// the value code reduced into the range of the integer type t (Go's wrap-around, two's complement)
func (c *ctx) wrapInt(code string, t *ty) string {
	if !c.g.intm || t.k != kInt {
		return code
	}
	ik := t.ik
	if ik == "" {
		ik = "int" // lengths, indices, range keys
	}
	bits, signed := intWidth(ik)
	if bits == 0 {
		fail("integer type %s whose width the generator does not know", t)
	}
	if signed {
		return fmt.Sprintf("(wrap_i%d %s)", bits, code)
	}
	return fmt.Sprintf("(wrap_u%d %s)", bits, code)
}

// the length of an array type
func (g *gen) arrayLen(p *pkg, file *ast.File, e ast.Expr) int {
	v, ok := g.evalConstX(p, file, e)
	if ok {
		if r, ok := ratOfConst(v); ok && r.IsInt() && r.Num().IsInt64() && r.Num().Int64() >= 0 && r.Num().Int64() <= 1<<16 {
			return int(r.Num().Int64())
		}
	}
	fail("array length %s the generator cannot evaluate", exprString(e))
	return 0
}

// & | ^ &^ % << >> on integers, with the wrap
func (c *ctx) intBitOp(x *ast.BinaryExpr, hint *ty) (val, bool) {
	var f string
	switch x.Op {
	case token.AND:
		f = "Z.land"
	case token.OR:
		f = "Z.lor"
	case token.XOR:
		f = "Z.lxor"
	case token.AND_NOT:
		f = "Z.ldiff"
	case token.REM:
		f = "Z.rem"
	case token.SHL, token.SHR:
		a := c.expr(x.X, hint)
		if a.t.k == kUntyped {
			if hint == nil || hint.k != kInt {
				fail("shift of an untyped constant")
			}
			a = c.constAt(a.c, hint)
		}
		b := c.expr(x.Y, nil)
		if b.t.k == kUntyped {
			if !b.c.IsInt() || b.c.Sign() < 0 {
				fail("shift count %s", b.c.RatString())
			}
			b = val{code: zlit(b.c.Num()), t: &ty{k: kInt, ik: "uint"}}
		}
		if a.t.k != kInt || b.t.k != kInt {
			fail("operator %s on %s and %s", x.Op, a.t, b.t)
		}
		if _, signed := intWidth(b.t.ik); signed {
			fail("shift count of the signed type %s (a negative count panics)", b.t)
		}
		op := "Z.shiftl"
		if x.Op == token.SHR {
			op = "Z.shiftr"
		}
		return val{code: c.wrapInt("("+op+" "+a.code+" "+b.code+")", a.t), t: a.t}, true
	default:
		return val{}, false
	}
	a := c.expr(x.X, hint)
	b := c.expr(x.Y, hint)
	if a.t.k == kUntyped && b.t.k == kUntyped {
		fail("operator %s on two constants", x.Op)
	}
	if a.t.k == kUntyped {
		a = c.constAt(a.c, b.t)
	} else if b.t.k == kUntyped {
		b = c.constAt(b.c, a.t)
	}
	if a.t.k != kInt || !sameType(a.t, b.t) {
		fail("operator %s on %s and %s", x.Op, a.t, b.t)
	}
	return val{code: c.wrapInt("("+f+" "+a.code+" "+b.code+")", a.t), t: a.t}, true
}

// s[lo:hi] on a list: the bounds are checked against the length (for a slice with spare capacity Go
// checks hi against the capacity instead: such code is outside what the translation describes)
func (c *ctx) sliceExpr(x *ast.SliceExpr) val {
	if x.Slice3 {
		fail("three-index slice expression")
	}
	a := c.expr(x.X, nil)
	if a.t.k != kList {
		fail("slice expression on %s is outside the fragment", a.t)
	}
	t := &ty{k: kList, elems: a.t.elems}
	switch {
	case x.Low == nil && x.High == nil:
		return val{code: a.code, t: t}
	case x.Low == nil:
		hi := c.intExpr(x.High, "slice bound")
		return val{code: c.bindOpt("(slice_to "+a.code+" "+hi.code+")", "slice bounds out of range", "sl"), t: t}
	case x.High == nil:
		lo := c.intExpr(x.Low, "slice bound")
		return val{code: c.bindOpt("(slice_from "+a.code+" "+lo.code+")", "slice bounds out of range", "sl"), t: t}
	}
	lo := c.intExpr(x.Low, "slice bound")
	hi := c.intExpr(x.High, "slice bound")
	return val{code: c.bindOpt("(slice_range "+a.code+" "+lo.code+" "+hi.code+")", "slice bounds out of range", "sl"), t: t}
}

// append(a, b...)
func (c *ctx) appendSpread(a0, b0 ast.Expr) val {
	a := c.expr(a0, nil)
	if a.t.k != kList {
		fail("append to %s is outside the fragment", a.t)
	}
	b := c.expr(b0, a.t)
	if b.t.k != kList || !sameType(a.t, b.t) {
		fail("append of %s to %s", b.t, a.t)
	}
	return val{code: "(app " + a.code + " " + b.code + ")", t: &ty{k: kList, elems: a.t.elems}}
}

// an assignment through the local l (an element, a field): when l is an argument whose writes the caller
// sees, the function must return its final value
func (c *ctx) noteWrite(l *local) {
	if !c.g.intm || c.closure > 0 {
		return
	}
	idx, ok := c.refLocals[l]
	if !ok {
		return
	}
	if c.voidRecv != "" && c.lookup(c.voidRecv) == l {
		return // a method without results already returns its receiver
	}
	for _, o := range c.fi.outs {
		if o == idx {
			return
		}
	}
	panic(needOut(idx))
}

// the final values of the written arguments, returned after the results
func (c *ctx) outValues() []string {
	if c.closure > 0 {
		return nil
	}
	var out []string
	for _, i := range c.fi.outs {
		l := c.scopes[0][c.fi.pnames[i]]
		if l == nil {
			fail("internal: written argument %d has no name", i)
		}
		out = append(out, l.coq)
	}
	return out
}

func (c *ctx) fullResultType() *ty {
	if len(c.fi.outs) == 0 {
		return c.fi.result
	}
	var elems []*ty
	if c.fi.result.k == kTuple {
		elems = append(elems, c.fi.result.elems...)
	} else {
		elems = append(elems, c.fi.result)
	}
	return &ty{k: kTuple, elems: append(elems, c.fi.outTypes...)}
}

// call of a function that writes through some of its arguments: those arguments must be variables of the
// caller (v or v[:]); they are bound again to the values the callee returns for them
func (c *ctx) callWithOuts(fi *funcInfo, call string, all []ast.Expr, key string) val {
	var names []string
	var rts []*ty
	if fi.result.k == kTuple {
		rts = fi.result.elems
	} else {
		rts = []*ty{fi.result}
	}
	for range rts {
		c.tmp++
		names = append(names, c.fresh(fmt.Sprintf("r%d", c.tmp)))
	}
	resNames := append([]string(nil), names...)
	for _, oi := range fi.outs {
		a := unparen(all[oi])
		if se, ok := a.(*ast.SliceExpr); ok && se.Low == nil && se.High == nil && !se.Slice3 {
			a = unparen(se.X)
		}
		id, ok := a.(*ast.Ident)
		if !ok {
			fail("argument %d of %s is written by the callee and is not a variable", oi, key)
		}
		l := c.lookup(id.Name)
		if l == nil || l.coq == "" {
			fail("argument %d of %s is written by the callee and is not a local variable", oi, key)
		}
		c.checkNotCaptured(l, id.Name)
		if len(c.loopScope) > 0 {
			// a variable declared outside the loop body would have to be part of the loop state
			declaredInside := false
			for d := c.loopScope[len(c.loopScope)-1]; d < len(c.scopes); d++ {
				if c.scopes[d][id.Name] == l {
					declaredInside = true
				}
			}
			if !declaredInside {
				fail("call of %s inside a loop writes through %s, which is declared outside the loop", key, id.Name)
			}
		}
		c.noteWrite(l)
		names = append(names, l.coq)
	}
	c.effect()
	kind := 2
	if fi.partial || fi.eff {
		kind = 1
	}
	c.pend = append(c.pend, pending{kind, c.tuple(names), call, ""})
	return val{code: c.tuple(resNames), t: fi.result}
}

// for cond { body }: [while_loop cond body fuel state]; the fuel is an upper bound of the number of
// iterations derived from the loop: the condition compares a variable x of an unsigned type of width W
// and the body shifts x right by a constant k >= 1 in every iteration (a statement of the body's top
// level): after ceil(W/k) iterations x is 0.  Should the fuel run out while the condition holds the
// outcome is LErr (never a silent stop).
func (c *ctx) whileStmt(s *ast.ForStmt, rest func(n int) string, n int) string {
	c.effect()
	state := c.assignedOuter(s.Body)
	if len(state) == 0 {
		fail("condition-only for loop whose body assigns no variable of the enclosing scopes")
	}
	styp, tup, pat := c.loopState(state)
	be, ok := unparen(s.Cond).(*ast.BinaryExpr)
	if !ok {
		fail("loop condition %s is outside the fragment", exprString(s.Cond))
	}
	var xv *ast.Ident
	for _, e := range []ast.Expr{be.X, be.Y} {
		if id, ok := unparen(e).(*ast.Ident); ok && c.lookup(id.Name) != nil {
			for _, st := range state {
				if st == id.Name {
					xv = id
				}
			}
		}
	}
	if xv == nil {
		fail("loop condition %s: no bound on the number of iterations can be derived", exprString(s.Cond))
	}
	xl := c.lookup(xv.Name)
	bits, signed := intWidth(xl.t.ik)
	if xl.t.k != kInt || bits == 0 || signed {
		fail("loop condition %s: %s is not of an unsigned integer type", exprString(s.Cond), xv.Name)
	}
	shift := 0
	for _, st := range s.Body.List {
		if as, ok := st.(*ast.AssignStmt); ok && as.Tok == token.SHR_ASSIGN && len(as.Lhs) == 1 && len(as.Rhs) == 1 {
			if id, ok := unparen(as.Lhs[0]).(*ast.Ident); ok && id.Name == xv.Name {
				k := c.expr(as.Rhs[0], nil)
				if k.t.k == kUntyped && k.c.IsInt() && k.c.Sign() > 0 && k.c.Num().IsInt64() {
					shift = int(k.c.Num().Int64())
				}
			}
		}
		if br, ok := st.(*ast.BranchStmt); ok && br.Tok == token.CONTINUE {
			break
		}
	}
	if shift == 0 {
		fail("loop condition %s: the body does not shift %s right by a positive constant", exprString(s.Cond), xv.Name)
	}
	ast.Inspect(s.Body, func(nd ast.Node) bool {
		if br, ok := nd.(*ast.BranchStmt); ok && br.Tok == token.CONTINUE {
			fail("continue inside a condition-only for loop")
		}
		return true
	})
	fuel := (bits + shift - 1) / shift
	pm := len(c.pend)
	cond := c.cond(s.Cond)
	if len(c.pend) != pm {
		fail("a run-time check (indexing, call that can panic) in the loop condition")
	}
	body := c.loopBody(s.Body, tup, n+3)
	loop := fmt.Sprintf("while_loop (S:=%s) (R:=%s)\n%s(fun %s => %s)\n%s(fun %s =>\n%s)\n%s%d%%nat %s",
		styp, c.loopResultType(), ind(n+2), pat, cond, ind(n+2), pat, body, ind(n+2), fuel, tup)
	return c.afterLoop(loop, strings.TrimPrefix(pat, "'"), rest, n)
}

// a constant expression that may refer to constants of imported packages (array lengths)
func (g *gen) evalConstX(p *pkg, file *ast.File, e ast.Expr) (constant.Value, bool) {
	switch x := unparen(e).(type) {
	case *ast.SelectorExpr:
		if id, ok := x.X.(*ast.Ident); ok {
			if q := g.importedPkg(file, id.Name); q != nil {
				return q.constVal(x.Sel.Name)
			}
		}
		return nil, false
	case *ast.BinaryExpr:
		a, ok1 := g.evalConstX(p, file, x.X)
		b, ok2 := g.evalConstX(p, file, x.Y)
		if ok1 && ok2 && (x.Op == token.ADD || x.Op == token.SUB || x.Op == token.MUL) {
			return constant.BinaryOp(a, x.Op, b), true
		}
		return nil, false
	}
	return p.evalConst(e, 0)
}

type effInShortCircuit struct{} // a run-time check in the right operand of && / ||

// a struct field of type *T
func (g *gen) ptrField(p *pkg, owner string, se *ast.StarExpr) *ty {
	id, ok := se.X.(*ast.Ident)
	if !ok {
		return &ty{k: kOpaque, name: exprString(se)}
	}
	ts := p.types[id.Name]
	if ts == nil {
		return &ty{k: kOpaque, name: exprString(se)}
	}
	if _, isStruct := ts.Type.(*ast.StructType); !isStruct {
		return &ty{k: kOpaque, name: exprString(se)}
	}
	k := p.rel + ":" + id.Name
	if t, seen := g.named[k]; seen && t == nil {
		// T is being resolved (a recursive type): this struct is emitted together with T
		return &ty{k: kPtr, name: id.Name, p: p, coq: "rec:" + k}
	}
	if t := g.namedType(p, id.Name); t.k == kStruct {
		return &ty{k: kPtr, name: id.Name, p: p}
	}
	return &ty{k: kOpaque, name: exprString(se)}
}

// registers the struct t (just resolved) with the in-progress structs its pointer fields refer to
func (g *gen) noteRecFields(t *ty) {
	for _, f := range t.fields {
		if f.t.k == kPtr && strings.HasPrefix(f.t.coq, "rec:") {
			k := strings.TrimPrefix(f.t.coq, "rec:")
			if g.recDeps == nil {
				g.recDeps = map[string][]*ty{}
				g.inGroup = map[*ty]bool{}
			}
			g.recDeps[k] = append(g.recDeps[k], t)
			g.inGroup[t] = true
		}
	}
}

// the struct k turned out to be outside the fragment: so are the structs that refer to it
func (g *gen) dropRecDeps(k string) {
	for _, t := range g.recDeps[k] {
		kk := t.p.rel + ":" + t.name
		delete(g.structs, kk)
		g.named[kk] = &ty{k: kOpaque, name: t.name, p: t.p}
		for i, s := range g.sorder {
			if s == t {
				g.sorder = append(g.sorder[:i], g.sorder[i+1:]...)
				break
			}
		}
		delete(g.inGroup, t)
	}
	delete(g.recDeps, k)
}

// mutually recursive structs: one Inductive block, the projections as definitions
func (g *gen) emitRecGroup(b *bytes.Buffer, grp []*ty) {
	for i, t := range grp {
		fmt.Fprintf(b, "\n(* %s/%s: type %s struct (recursive: a pointer field is an option) *)", t.p.rel, t.file, t.name)
		kw := "Inductive"
		if i > 0 {
			kw = "with"
		}
		fmt.Fprintf(b, "\n%s %s (F : Type) : Type := Mk_%s", kw, t.coq, t.coq)
		for _, f := range t.fields {
			fmt.Fprintf(b, " (%s : %s)", coqIdent("fld_"+f.name), f.t.coqType())
		}
	}
	b.WriteString(".\n")
	for _, t := range grp {
		fmt.Fprintf(b, "Arguments Mk_%s {F}.\n", t.coq)
		for i, f := range t.fields {
			pat := make([]string, len(t.fields))
			for j := range pat {
				pat[j] = "_"
			}
			pat[i] = "v"
			fmt.Fprintf(b, "Definition %s {F : Type} (x : %s F) : %s := match x with Mk_%s %s => v end.\n",
				proj(t, f.name), t.coq, f.t.coqType(), t.coq, strings.Join(pat, " "))
		}
	}
}

// *p for a pointer field: the value, or the outcome "nil pointer dereference"
func (c *ctx) deref(v val) val {
	t := c.g.namedType(v.t.p, v.t.name)
	if t.k != kStruct {
		fail("pointer to %s, which is outside the fragment", v.t.name)
	}
	return val{code: c.bindOpt(v.code, "nil pointer dereference", "pt"), t: t}
}

// if A || B {T} else {E}  /  if A && B {T} else {E}  where B needs a run-time check (which must not be
// evaluated when A decides): rewritten into nested ifs; nil when B needs none
func (c *ctx) splitShortCircuit(s *ast.IfStmt, be *ast.BinaryExpr) (rw *ast.IfStmt) {
	depth, pdepth, tmp := len(c.scopes), len(c.pend), c.tmp
	needs := false
	func() {
		defer func() {
			if r := recover(); r != nil {
				if _, is := r.(effInShortCircuit); !is {
					panic(r)
				}
				needs = true
			}
			c.scopes, c.pend, c.tmp = c.scopes[:depth], c.pend[:pdepth], tmp
		}()
		c.scTry++
		defer func() { c.scTry-- }()
		c.cond(s.Cond)
	}()
	if !needs {
		return nil
	}
	if be.Op == token.LOR {
		inner := &ast.IfStmt{Cond: be.Y, Body: s.Body, Else: s.Else}
		return &ast.IfStmt{Cond: be.X, Body: s.Body, Else: inner}
	}
	inner := &ast.IfStmt{Cond: be.Y, Body: s.Body, Else: s.Else}
	var els ast.Stmt = s.Else
	return &ast.IfStmt{Cond: be.X, Body: &ast.BlockStmt{List: []ast.Stmt{inner}}, Else: els}
}
