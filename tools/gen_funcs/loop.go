// The loop fragment (third output, coq/Gen/FuncsLoop.v): sequences as lists, indexing with an explicit
// out-of-range outcome, for / range loops as structural recursions, func-typed arguments and local
// func literals.  See the header comment of main.go and coq/Base/FLoop.v.
package main

import (
	"fmt"
	"go/ast"
	"go/token"
	"strings"
)

// what the third output translates (callees are translated on demand before their callers)
var loopRoots = []root{
	// geom/type_polygon.go: the shoelace sum (Area, ForceCW / ForceCCW), the centroid of a ring
	{"geom", "signedAreaOfLinearRing", false},
	{"geom", "triangleArea2", false}, {"geom", "centroid3", false},
	{"geom", "centroidOfRing", false}, {"geom", "weightedCentroid", false},
	// geom/type_line_string.go: Length, the length-weighted centroid sums
	{"geom", "LineString.Length", false},
	{"geom", "getLine", false},
	{"geom", "sumCentroidAndLengthOfLineString", false},
	// geom/alg_point_in_ring.go: the crossing-number loop
	{"geom", "hasCrossing", false},
	{"geom", "relatePointToRing", false},
	// geom/alg_distance.go: point-segment and segment-segment distance
	{"geom", "distBetweenXYs", false},
	{"geom", "distBetweenXYAndLine", false},
	{"geom", "distBetweenLineAndLine", false},
	// geom/alg_exact_equals.go: the comparison of two control points
	{"geom", "exactEqualsComparator.exceedsTolerance", false},
	{"geom", "exactEqualsComparator.eq", false},
	// geom/type_envelope.go: the envelope of a list of XYs
	{"geom", "NewEnvelope", false},
	// geom/alg_linear_interpolation.go, geom/alg_densify.go
	{"geom", "lerp", false},
	{"geom", "interpolateCoords", false},
	{"geom", "newLinearInterpolator", false},
	{"geom", "densify", false},
	// geom/type_polygon.go: the orientation tests behind ForceCW / ForceCCW
	{"geom", "Polygon.IsCW", false},
	{"geom", "Polygon.IsCCW", false},
	// type-level measures and envelopes built on the ring / line functions above
	{"geom", "MultiLineString.Length", false},
	{"geom", "LineString.Centroid", false},
	{"geom", "MultiPoint.Centroid", false},
	{"geom", "MultiPoint.Envelope", false},
	// geom/alg_simplify.go: the distance Ramer-Douglas-Peucker thresholds
	{"geom", "perpendicularDistance", false},
	// Probed and outside the fragment (each would be `untranslatable`): linearInterpolator.interpolate (calls
	// sort.SearchFloat64s), Polygon/MultiPolygon/LineString/MultiLineString.Envelope and Polygon.Centroid (through
	// Sequence.Envelope / Sequence.ForceCoordinatesType: a Sequence is translated as the list of its Coordinates),
	// LineString.IsClosed (a run-time check in the right operand of &&), Sequence.Reverse, snapToGridFloat64
	// (math.Pow10), Polygon.Area / MultiPolygon.Area (variadic option sets), transformSequence (3-argument make),
	// ramerDouglasPeucker (Sequence.appendAllPoints).
}

// further names the third output must not bind
var loopReserved = map[string]bool{"lookup": true, "list_set": true, "list_set_nat": true, "make_list": true,
	"is_nil_func": true, "for_loop": true, "range_loop": true, "step": true, "loop_res": true,
	"SNext": true, "SBreak": true, "SReturn": true, "SFail": true, "LDone": true, "LRet": true, "LErr": true,
	"length": true, "app": true, "rev": true, "map": true, "repeat": true, "nth_error": true, "nth": true,
	"hd": true, "tl": true, "fold_left": true, "fold_right": true, "firstn": true, "skipn": true, "last": true,
	"string": true, "A": true, "R": true}

// a run-time check of an expression: the statement the expression belongs to is wrapped in
//
//	match scrut with Some name => .. | None => Unknown reason end          (kind 0)
//	match scrut with Known name => .. | Unknown m => Unknown m end         (kind 1)
type pending struct {
	kind                int
	name, scrut, reason string
}

type needEffect struct{}  // the function must be translated with the result type partial T
type effInSimple struct{} // a run-time check inside `let vars := if .. then .. else ..`

const needEffectMarker = "\x00needs the result type partial"

func (c *ctx) effect() {
	if !c.g.loop {
		fail("internal: run-time check outside the loop fragment")
	}
	if c.noEff > 0 {
		panic(effInSimple{})
	}
	if c.closure == 0 && !c.fi.eff && !c.fi.partial {
		panic(needEffect{})
	}
}

func (c *ctx) inLoop() bool { return len(c.modes) > 0 && c.modes[len(c.modes)-1] == 1 }

func (c *ctx) isPartial() bool { return c.closure > 0 || c.fi.partial || c.fi.eff }

// the result type `return` statements refer to
func (c *ctx) resultType() *ty {
	if len(c.resTy) > 0 {
		return c.resTy[len(c.resTy)-1]
	}
	return c.fi.result
}

// the outcome "the Go code panics here" (reason: a Coq term of type string)
func (c *ctx) failCode(reason string) string {
	if c.inLoop() {
		return "(SFail " + reason + ")"
	}
	return "(Unknown " + reason + ")"
}

func (c *ctx) bindOpt(scrut, reason, base string) string {
	c.effect()
	c.tmp++
	name := c.fresh(fmt.Sprintf("%s%d", base, c.tmp))
	c.pend = append(c.pend, pending{0, name, scrut, reason})
	return name
}

func (c *ctx) bindPartial(call string) string {
	c.effect()
	c.tmp++
	name := c.fresh(fmt.Sprintf("r%d", c.tmp))
	c.pend = append(c.pend, pending{1, name, call, ""})
	return name
}

// wraps the checks registered since mark (in evaluation order, the first outermost) around body
func (c *ctx) wrapPend(mark int, body string, n int) string {
	for i := len(c.pend) - 1; i >= mark; i-- {
		pd := c.pend[i]
		if pd.kind == 0 {
			body = fmt.Sprintf("%smatch %s with\n%s| Some %s =>\n%s\n%s| None => %s\n%send",
				ind(n), pd.scrut, ind(n), pd.name, body, ind(n), c.failCode(coqString(pd.reason)), ind(n))
		} else if pd.kind == 2 {
			pat := pd.name
			if strings.HasPrefix(pat, "(") {
				pat = "'" + pat
			}
			body = fmt.Sprintf("%slet %s := %s in\n%s", ind(n), pat, pd.scrut, body)
		} else {
			m := c.fresh("msg")
			body = fmt.Sprintf("%smatch %s with\n%s| Known %s =>\n%s\n%s| Unknown %s => %s\n%send",
				ind(n), pd.scrut, ind(n), pd.name, body, ind(n), m, c.failCode(m), ind(n))
		}
	}
	if len(c.pend) > mark {
		c.pend = c.pend[:mark]
	}
	return body
}

func (c *ctx) checkNotCaptured(l *local, name string) {
	if c.captured[l] {
		fail("assignment to %s, which a func literal refers to", name)
	}
}

func scalarOrStruct(t *ty) bool {
	return t.k == kFloat || t.k == kInt || t.k == kBool || t.k == kStruct
}

// an integer-valued expression (index, length, bound)
func (c *ctx) intExpr(e ast.Expr, what string) val {
	v := c.expr(e, tInt)
	if v.t.k == kUntyped {
		v = c.constAt(v.c, tInt)
	}
	if v.t.k != kInt {
		fail("%s of type %s", what, v.t)
	}
	return v
}

// s[i] on a list
func (c *ctx) indexList(x *ast.IndexExpr) val {
	a := c.expr(x.X, nil)
	if a.t.k != kList {
		fail("index expression on %s is outside the fragment", a.t)
	}
	i := c.intExpr(x.Index, "index")
	name := c.bindOpt("(lookup "+a.code+" "+i.code+")", "index out of range", "e")
	return val{code: name, t: a.t.elems[0]}
}

// a field promoted from an embedded struct
func (c *ctx) promoted(r val, name string) (val, bool) {
	if r.t.k != kStruct {
		return val{}, false
	}
	for _, f := range r.t.fields {
		if !f.emb {
			continue
		}
		inner := val{code: "(" + proj(r.t, f.name) + " " + r.code + ")", t: f.t}
		if g, ok := c.fieldOf(f.t, name); ok {
			return val{code: "(" + proj(f.t, g.name) + " " + inner.code + ")", t: g.t}, true
		}
		if v, ok := c.promoted(inner, name); ok {
			return v, true
		}
	}
	return val{}, false
}

// []T{a, b} / [N]T{a, b}
func (c *ctx) listLiteral(x *ast.CompositeLit, t *ty) val {
	if at, ok := x.Type.(*ast.ArrayType); ok && at.Len != nil {
		if v, ok := c.p.evalConst(at.Len, 0); ok {
			if r, ok := ratOfConst(v); !ok || !r.IsInt() || !r.Num().IsInt64() || r.Num().Int64() != int64(len(x.Elts)) {
				fail("array literal of %s with %d elements", exprString(x.Type), len(x.Elts))
			}
		} else {
			fail("array literal with a length the generator cannot evaluate")
		}
	}
	code := "(@nil " + t.elems[0].coqType() + ")"
	parts := make([]string, len(x.Elts))
	for i, el := range x.Elts {
		if _, ok := el.(*ast.KeyValueExpr); ok {
			fail("keyed slice / array literal")
		}
		if cl, ok := el.(*ast.CompositeLit); ok && cl.Type == nil {
			el = &ast.CompositeLit{Type: x.Type.(*ast.ArrayType).Elt, Elts: cl.Elts}
		}
		parts[i] = c.conv(c.expr(el, t.elems[0]), t.elems[0], "list element").code
	}
	for i := len(parts) - 1; i >= 0; i-- {
		code = "(" + parts[i] + " :: " + code + ")"
	}
	return val{code: code, t: t}
}

// call of a func-typed argument or of a local func literal
func (c *ctx) callLocal(l *local, name string, args []ast.Expr) val {
	if len(args) != len(l.t.elems)-1 {
		fail("call of %s with %d arguments, want %d", name, len(args), len(l.t.elems)-1)
	}
	s := ""
	for i, a := range args {
		pt := l.t.elems[i+1]
		s += " " + c.conv(c.expr(a, pt), pt, fmt.Sprintf("argument %d of %s", i, name)).code
	}
	if l.t.k == kClosure {
		return val{code: c.bindPartial("(" + l.coq + s + ")"), t: l.t.elems[0]}
	}
	fn := c.bindOpt(l.coq, "call of a nil func", "fn")
	return val{code: "(" + fn + s + ")", t: l.t.elems[0]}
}

// an argument of func type: a func-typed variable of the caller, or nil
func (c *ctx) funcArg(a ast.Expr, pt *ty) string {
	a = unparen(a)
	if isNilIdent(a) && c.lookup("nil") == nil {
		return "None"
	}
	if id, ok := a.(*ast.Ident); ok {
		if l := c.lookup(id.Name); l != nil && l.t.k == kFunc && sameType(l.t, pt) {
			return l.coq
		}
	}
	fail("func-typed argument %s is outside the fragment", exprString(a))
	return ""
}

// len, make, append (when not shadowed by a function of the package); geom.NewSequence
func (c *ctx) builtinCall(name string, args []ast.Expr) (val, bool) {
	if name == "NewSequence" && c.p.rel == "geom" && len(args) == 2 {
		// the constructor of a Sequence from its flat representation: an operation supplied by the instantiation
		st := c.g.namedType(c.p, "Sequence")
		ft := &ty{k: kList, elems: []*ty{tFloat}}
		ct := c.g.namedType(c.p, "CoordinatesType")
		if st.k == kList && ct.k == kInt {
			fl := c.conv(c.expr(args[0], ft), ft, "argument 0 of NewSequence")
			cv := c.conv(c.expr(args[1], ct), ct, "argument 1 of NewSequence")
			c.g.seqOps = true
			return val{code: "(f_seq_new " + fl.code + " " + cv.code + ")", t: st}, true
		}
	}
	if _, isFunc := c.p.funcs[name]; isFunc || c.p.types[name] != nil {
		return val{}, false
	}
	switch name {
	case "len":
		if len(args) != 1 {
			fail("len with %d arguments", len(args))
		}
		a := c.expr(args[0], nil)
		if a.t.k != kList {
			fail("len of %s is outside the fragment", a.t)
		}
		return val{code: "(Z.of_nat (length " + a.code + "))", t: &ty{k: kInt}}, true
	case "make":
		if len(args) != 2 {
			fail("make with %d arguments", len(args))
		}
		t := c.g.typeOf(c.p, c.file, args[0])
		if _, isArr := args[0].(*ast.ArrayType); !isArr || t.k != kList {
			fail("make(%s, ..) is outside the fragment", exprString(args[0]))
		}
		n := c.intExpr(args[1], "length")
		nm := c.bindOpt("(make_list "+n.code+" "+c.zero(t.elems[0])+")", "makeslice: len out of range", "mk")
		return val{code: nm, t: t}, true
	case "append":
		if len(args) < 2 {
			fail("append with %d arguments", len(args))
		}
		a := c.expr(args[0], nil)
		if a.t.k != kList {
			fail("append to %s is outside the fragment", a.t)
		}
		tail := "(@nil " + a.t.elems[0].coqType() + ")"
		var parts []string
		for _, e := range args[1:] {
			parts = append(parts, c.conv(c.expr(e, a.t.elems[0]), a.t.elems[0], "appended element").code)
		}
		for i := len(parts) - 1; i >= 0; i-- {
			tail = "(" + parts[i] + " :: " + tail + ")"
		}
		return val{code: "(app " + a.code + " " + tail + ")", t: a.t}, true
	}
	return val{}, false
}

// math.Inf, Ceil, Floor, Ilogb, Ldexp: operations outside the record fops (section variables of the output)
func (c *ctx) mathLoop(name string, args []ast.Expr) (val, bool) {
	fl := func(e ast.Expr) string { return c.conv(c.expr(e, tFloat), tFloat, "argument of math."+name).code }
	want := func(k int) {
		if len(args) != k {
			fail("math.%s with %d arguments", name, len(args))
		}
	}
	switch name {
	case "Inf":
		want(1)
		s := c.expr(args[0], tInt)
		if s.t.k != kUntyped || !s.c.IsInt() {
			fail("math.Inf with a sign that is not an integer constant")
		}
		return val{code: "(f_inf " + zlit(s.c.Num()) + ")", t: tFloat}, true
	case "Ceil":
		want(1)
		return val{code: "(f_ceil " + fl(args[0]) + ")", t: tFloat}, true
	case "Floor":
		want(1)
		return val{code: "(f_floor " + fl(args[0]) + ")", t: tFloat}, true
	case "Ilogb":
		want(1)
		return val{code: "(f_ilogb " + fl(args[0]) + ")", t: &ty{k: kInt}}, true
	case "Ldexp":
		want(2)
		x := fl(args[0])
		e := c.intExpr(args[1], "exponent")
		return val{code: "(f_ldexp " + x + " " + e.code + ")", t: tFloat}, true
	}
	return val{}, false
}

// methods of geom.Sequence (its representation is not translated): Length, Get, GetXY
func (c *ctx) sequenceMethod(recv ast.Expr, name string, args []ast.Expr) val {
	r := c.expr(recv, nil)
	et := r.t.elems[0]
	switch name {
	case "Length":
		if len(args) != 0 {
			fail("Sequence.Length with arguments")
		}
		return val{code: "(Z.of_nat (length " + r.code + "))", t: &ty{k: kInt}}
	case "CoordinatesType":
		if len(args) != 0 {
			fail("Sequence.CoordinatesType with arguments")
		}
		// not derivable from the list of Coordinates (empty sequence): an operation supplied by the instantiation
		c.g.seqOps = true
		return val{code: "(f_seq_ctype " + r.code + ")", t: c.g.namedType(r.t.p, "CoordinatesType")}
	case "Get", "GetXY":
		if len(args) != 1 {
			fail("Sequence.%s with %d arguments", name, len(args))
		}
		i := c.intExpr(args[0], "index")
		e := c.bindOpt("(lookup "+r.code+" "+i.code+")", "index out of range", "e")
		if name == "Get" {
			return val{code: e, t: et}
		}
		f, ok := c.fieldOf(et, "XY")
		if !ok || f.t.k != kStruct {
			fail("type %s has no field XY in the fragment", et)
		}
		return val{code: "(" + proj(et, "XY") + " " + e + ")", t: f.t}
	}
	fail("method Sequence.%s is outside the fragment (a Sequence is translated as the list of its Coordinates)", name)
	return val{}
}

// ---------------------------------------------------------------------------------------------
// statements of the loop fragment

func (c *ctx) exprStmt(s *ast.ExprStmt, n int) string {
	if call, ok := unparen(s.X).(*ast.CallExpr); ok {
		if id, ok := unparen(call.Fun).(*ast.Ident); ok && id.Name == "panic" && c.lookup("panic") == nil && c.p.funcs["panic"] == nil {
			c.effect()
			msg := "panic"
			if len(call.Args) == 1 {
				if bl, ok := unparen(call.Args[0]).(*ast.BasicLit); ok && bl.Kind == token.STRING {
					msg = "panic: " + strings.Trim(bl.Value, "\"`")
				}
			}
			return ind(n) + c.failCode(coqString(msg))
		}
	}
	fail("statement %s is outside the fragment", stmtName(s))
	return ""
}

func (c *ctx) branchStmt(s *ast.BranchStmt, n int) string {
	if s.Label != nil {
		fail("%s with a label is outside the fragment", s.Tok)
	}
	if !c.inLoop() {
		fail("%s outside a loop body", s.Tok)
	}
	st := c.loops[len(c.loops)-1]
	switch s.Tok {
	case token.CONTINUE:
		return ind(n) + "(SNext " + st + ")"
	case token.BREAK:
		return ind(n) + "(SBreak " + st + ")"
	}
	fail("%s is outside the fragment", s.Tok)
	return ""
}

// name := func(..) T {..}   and   s[i] = v
func (c *ctx) specialAssign(s *ast.AssignStmt, n int) (string, bool) {
	if len(s.Lhs) != 1 || len(s.Rhs) != 1 {
		return "", false
	}
	if lit, ok := unparen(s.Rhs[0]).(*ast.FuncLit); ok {
		id, isId := s.Lhs[0].(*ast.Ident)
		if !isId || s.Tok != token.DEFINE || id.Name == "_" {
			fail("a func literal other than in `name := func(..) ..`")
		}
		return c.closureDef(id.Name, lit, n), true
	}
	ix, ok := unparen(s.Lhs[0]).(*ast.IndexExpr)
	if !ok {
		return "", false
	}
	id, ok := unparen(ix.X).(*ast.Ident)
	if !ok {
		fail("assignment to %s is outside the fragment", exprString(s.Lhs[0]))
	}
	l := c.lookup(id.Name)
	if l == nil || l.t.k != kList {
		fail("assignment to an element of %s, which is not a list variable", id.Name)
	}
	c.checkNotCaptured(l, id.Name)
	c.noteWrite(l)
	et := l.t.elems[0]
	var rhs ast.Expr = s.Rhs[0]
	switch s.Tok {
	case token.ASSIGN:
	case token.ADD_ASSIGN, token.SUB_ASSIGN, token.MUL_ASSIGN, token.QUO_ASSIGN:
		rhs = &ast.BinaryExpr{X: s.Lhs[0], Op: opOfAssign[s.Tok], Y: &ast.ParenExpr{X: rhs}}
	default:
		if op, ok := opOfAssign[s.Tok]; ok && c.g.intm {
			rhs = &ast.BinaryExpr{X: s.Lhs[0], Op: op, Y: &ast.ParenExpr{X: rhs}}
			break
		}
		fail("assignment operator %s is outside the fragment", s.Tok)
	}
	i := c.intExpr(ix.Index, "index")
	v := c.conv(c.expr(rhs, et), et, "assigned element")
	nl := c.bindOpt("(list_set "+l.coq+" "+i.code+" "+v.code+")", "index out of range", "upd")
	return fmt.Sprintf("%slet %s := %s in\n", ind(n), l.coq, nl), true
}

// name := func(p1 T1, ..) T { body }: a let-bound function returning partial T
func (c *ctx) closureDef(name string, lit *ast.FuncLit, n int) string {
	c.effect()
	if lit.Type.TypeParams != nil || lit.Type.Results == nil || len(lit.Type.Results.List) != 1 || len(lit.Type.Results.List[0].Names) > 0 {
		fail("func literal %s: exactly one unnamed result is required", name)
	}
	rt := c.g.typeOf(c.p, c.file, lit.Type.Results.List[0].Type)
	if !scalarOrStruct(rt) {
		fail("func literal %s: result type %s is outside the fragment", name, rt)
	}
	elems := []*ty{rt}
	c.capBase = append(c.capBase, len(c.scopes))
	c.push()
	var binders []string
	for _, f := range lit.Type.Params.List {
		t := c.g.typeOf(c.p, c.file, f.Type)
		if !scalarOrStruct(t) {
			fail("func literal %s: argument type %s is outside the fragment", name, t)
		}
		if len(f.Names) == 0 {
			fail("func literal %s: unnamed argument", name)
		}
		for _, id := range f.Names {
			cn := c.fresh("arg")
			if id.Name != "_" {
				cn = c.declare(id.Name, t)
			}
			binders = append(binders, fmt.Sprintf("(%s : %s)", cn, t.coqType()))
			elems = append(elems, t)
		}
	}
	if len(binders) == 0 {
		fail("func literal %s without arguments", name)
	}
	c.modes = append(c.modes, 0)
	c.closure++
	c.resTy = append(c.resTy, rt)
	savedNamed, savedVoid, savedNoCatch := c.named, c.voidRecv, c.noCatch
	c.named, c.voidRecv = nil, ""
	pmark := len(c.pend)
	c.push()
	body := c.stmts(lit.Body.List, func(int) string {
		fail("control reaches the end of the func literal %s without a return", name)
		return ""
	}, n+2)
	if len(c.pend) != pmark {
		fail("internal: unwrapped run-time checks in func literal %s", name)
	}
	c.pop()
	c.named, c.voidRecv, c.noCatch = savedNamed, savedVoid, savedNoCatch
	c.resTy = c.resTy[:len(c.resTy)-1]
	c.closure--
	c.modes = c.modes[:len(c.modes)-1]
	c.pop()
	c.capBase = c.capBase[:len(c.capBase)-1]
	cn := c.declare(name, &ty{k: kClosure, elems: elems})
	return fmt.Sprintf("%slet %s := fun %s =>\n%s in\n", ind(n), cn, strings.Join(binders, " "), body)
}

// the variables of the enclosing scopes that the statements assign (in order of first occurrence);
// a name that is both assigned and declared inside the statements is refused
func (c *ctx) assignedOuter(body *ast.BlockStmt, loopVars ...string) []string {
	var assigned []string
	seen := map[string]bool{}
	declared := map[string]bool{}
	root := func(e ast.Expr) string {
		for {
			switch x := unparen(e).(type) {
			case *ast.Ident:
				return x.Name
			case *ast.SelectorExpr:
				e = x.X
			case *ast.IndexExpr:
				e = x.X
			default:
				return ""
			}
		}
	}
	note := func(e ast.Expr) {
		r := root(e)
		if r == "" {
			fail("assignment to %s is outside the fragment", exprString(e))
		}
		if r != "_" && !seen[r] {
			seen[r] = true
			assigned = append(assigned, r)
		}
	}
	ast.Inspect(body, func(nd ast.Node) bool {
		switch x := nd.(type) {
		case *ast.FuncLit:
			return false
		case *ast.AssignStmt:
			for _, l := range x.Lhs {
				if x.Tok == token.DEFINE {
					if id, ok := l.(*ast.Ident); ok {
						declared[id.Name] = true
					}
				} else {
					note(l)
				}
			}
		case *ast.IncDecStmt:
			note(x.X)
		case *ast.ValueSpec:
			for _, id := range x.Names {
				declared[id.Name] = true
			}
		case *ast.RangeStmt:
			for _, e := range []ast.Expr{x.Key, x.Value} {
				if e == nil {
					continue
				}
				if x.Tok == token.DEFINE {
					if id, ok := e.(*ast.Ident); ok {
						declared[id.Name] = true
					}
				} else {
					note(e)
				}
			}
		}
		return true
	})
	var out []string
	for _, a := range assigned {
		for _, lv := range loopVars {
			if a == lv {
				fail("the loop body assigns the loop variable %s", a)
			}
		}
		l := c.lookup(a)
		if l == nil {
			continue // a variable of the body
		}
		if declared[a] {
			fail("the loop body both assigns and declares a variable named %s", a)
		}
		if l.t.k == kOpaque || l.t.k == kClosure || l.t.k == kFunc {
			fail("the loop body assigns %s of type %s", a, l.t)
		}
		c.checkNotCaptured(l, a)
		out = append(out, a)
	}
	return out
}

func mentions(e ast.Expr, names map[string]bool) bool {
	found := false
	ast.Inspect(e, func(nd ast.Node) bool {
		if id, ok := nd.(*ast.Ident); ok && names[id.Name] {
			found = true
		}
		return !found
	})
	return found
}

// the state of a loop: its type, the pattern / tuple of the current values
func (c *ctx) loopState(state []string) (typ, tup, pat string) {
	if len(state) == 0 {
		return "unit", "tt", "_"
	}
	var ts, ns []string
	for _, s := range state {
		l := c.lookup(s)
		ts = append(ts, l.t.coqType())
		ns = append(ns, l.coq)
	}
	if len(state) == 1 {
		return ts[0], ns[0], ns[0]
	}
	return "(" + strings.Join(ts, " * ") + ")%type", "(" + strings.Join(ns, ", ") + ")", "'(" + strings.Join(ns, ", ") + ")"
}

func (c *ctx) loopResultType() string {
	if len(c.resTy) == 0 {
		return c.fullResultType().coqType()
	}
	return c.resultType().coqType()
}

// what follows a loop: the three outcomes
func (c *ctx) afterLoop(loopCode, tup string, rest func(n int) string, n int) string {
	r, m := c.fresh("ret"), c.fresh("msg")
	return fmt.Sprintf("%smatch %s with\n%s| LDone %s =>\n%s\n%s| LRet %s => %s\n%s| LErr %s => %s\n%send",
		ind(n), loopCode, ind(n), tup, rest(n+1), ind(n), r, c.ret(r), ind(n), m, c.failCode(m), ind(n))
}

func (c *ctx) loopBody(body *ast.BlockStmt, tup string, n int) string {
	c.modes = append(c.modes, 1)
	c.loops = append(c.loops, tup)
	c.loopScope = append(c.loopScope, len(c.scopes))
	defer func() { c.loopScope = c.loopScope[:len(c.loopScope)-1] }()
	savedNoCatch := c.noCatch
	code := c.block(body.List, func(m int) string { return ind(m) + "(SNext " + tup + ")" }, n)
	c.noCatch = savedNoCatch
	c.loops = c.loops[:len(c.loops)-1]
	c.modes = c.modes[:len(c.modes)-1]
	return code
}

// for i := a; i+c < b; i += k { body }
func (c *ctx) forStmt(s *ast.ForStmt, rest func(n int) string, n int) string {
	c.effect()
	if s.Init == nil || s.Cond == nil || s.Post == nil {
		fail("for statement without init, condition or post statement")
	}
	init, ok := s.Init.(*ast.AssignStmt)
	if !ok || init.Tok != token.DEFINE || len(init.Lhs) != 1 || len(init.Rhs) != 1 {
		fail("for statement whose init is not `i := a`")
	}
	iv, ok := init.Lhs[0].(*ast.Ident)
	if !ok || iv.Name == "_" {
		fail("for statement whose init is not `i := a`")
	}
	// the increment: i++ or i += k, k a positive integer constant
	incr := ""
	switch p := s.Post.(type) {
	case *ast.IncDecStmt:
		if id, ok := unparen(p.X).(*ast.Ident); ok && id.Name == iv.Name && p.Tok == token.INC {
			incr = "1%Z"
		}
	case *ast.AssignStmt:
		if len(p.Lhs) == 1 && len(p.Rhs) == 1 && p.Tok == token.ADD_ASSIGN {
			if id, ok := unparen(p.Lhs[0]).(*ast.Ident); ok && id.Name == iv.Name {
				k := c.expr(p.Rhs[0], tInt)
				if k.t.k == kUntyped && k.c.IsInt() && k.c.Sign() > 0 {
					incr = zlit(k.c.Num())
				}
			}
		}
	}
	if incr == "" {
		fail("for statement whose post statement is not `%s++` or `%s += k` with a positive constant k", iv.Name, iv.Name)
	}
	mark := len(c.pend)
	a := c.intExpr(init.Rhs[0], "initial value of "+iv.Name)
	state := c.assignedOuter(s.Body, iv.Name)
	styp, tup, pat := c.loopState(state)
	// the condition: L < R or L <= R (R > L, R >= L), L = i, i + e, e + i or i - e; e and R do not change
	be, ok := unparen(s.Cond).(*ast.BinaryExpr)
	if !ok {
		fail("loop condition %s is outside the fragment", exprString(s.Cond))
	}
	L, R, strict := be.X, be.Y, true
	switch be.Op {
	case token.LSS:
	case token.LEQ:
		strict = false
	case token.GTR:
		L, R = be.Y, be.X
	case token.GEQ:
		L, R, strict = be.Y, be.X, false
	default:
		fail("loop condition %s is outside the fragment", exprString(s.Cond))
	}
	changing := map[string]bool{iv.Name: true}
	for _, st := range state {
		changing[st] = true
	}
	if mentions(R, changing) {
		fail("the bound %s of the loop changes during the loop", exprString(R))
	}
	isIv := func(e ast.Expr) bool {
		id, ok := unparen(e).(*ast.Ident)
		return ok && id.Name == iv.Name
	}
	okL := isIv(L)
	if b, isBin := unparen(L).(*ast.BinaryExpr); isBin && !okL {
		switch {
		case b.Op == token.ADD && isIv(b.X) && !mentions(b.Y, changing):
			okL = true
		case b.Op == token.ADD && isIv(b.Y) && !mentions(b.X, changing):
			okL = true
		case b.Op == token.SUB && isIv(b.X) && !mentions(b.Y, changing):
			okL = true
		}
	}
	if !okL {
		fail("loop condition %s: the left-hand side is not %s, %s + e or %s - e", exprString(s.Cond), iv.Name, iv.Name, iv.Name)
	}
	c.push()
	ivc := c.declare(iv.Name, a.t)
	pm := len(c.pend)
	cond := c.cond(s.Cond)
	lv := c.intExpr(L, "loop condition")
	rv := c.intExpr(R, "loop bound")
	if len(c.pend) != pm {
		fail("a run-time check (indexing, call that can panic) in the loop condition")
	}
	fuel := "(Z.sub " + rv.code + " " + lv.code + ")"
	if !strict {
		fuel = "(Z.add " + fuel + " 1%Z)"
	}
	fuel = "(Z.to_nat (let " + ivc + " := " + a.code + " in " + fuel + "))"
	body := c.loopBody(s.Body, tup, n+3)
	c.pop()
	loop := fmt.Sprintf("for_loop (S:=%s) (R:=%s)\n%s(fun %s => %s)\n%s(fun %s %s =>\n%s)\n%s%s %s %s %s",
		styp, c.loopResultType(), ind(n+2), ivc, cond, ind(n+2), ivc, pat, body, ind(n+2), incr, fuel, a.code, tup)
	code := c.afterLoop(loop, strings.TrimPrefix(pat, "'"), rest, n)
	return c.wrapPend(mark, code, n)
}

// for i, x := range s { body }
func (c *ctx) rangeStmt(s *ast.RangeStmt, rest func(n int) string, n int) string {
	c.effect()
	if s.Tok != token.DEFINE && (s.Key != nil || s.Value != nil) {
		fail("range statement that assigns to existing variables")
	}
	mark := len(c.pend)
	xs := c.expr(s.X, nil)
	if xs.t.k != kList {
		fail("range over %s is outside the fragment", xs.t)
	}
	name := func(e ast.Expr) string {
		if e == nil {
			return "_"
		}
		id, ok := e.(*ast.Ident)
		if !ok {
			fail("range variable %s", exprString(e))
		}
		return id.Name
	}
	kn, vn := name(s.Key), name(s.Value)
	state := c.assignedOuter(s.Body, kn, vn)
	styp, tup, pat := c.loopState(state)
	c.push()
	kc, vc := c.fresh("idx"), c.fresh("elt")
	if kn != "_" {
		kc = c.declare(kn, &ty{k: kInt})
	}
	if vn != "_" {
		vc = c.declare(vn, xs.t.elems[0])
	}
	body := c.loopBody(s.Body, tup, n+3)
	c.pop()
	loop := fmt.Sprintf("range_loop (A:=%s) (S:=%s) (R:=%s)\n%s(fun %s %s %s =>\n%s)\n%s%s 0%%Z %s",
		xs.t.elems[0].coqType(), styp, c.loopResultType(), ind(n+2), kc, vc, pat, body, ind(n+2), xs.code, tup)
	code := c.afterLoop(loop, strings.TrimPrefix(pat, "'"), rest, n)
	return c.wrapPend(mark, code, n)
}
