// gen_funcs re-reads the Go source of the library under test ($VERIF_REPO, default /repo) and
// regenerates coq/Gen/Funcs.v: the BODIES of a list of small pure functions (box algebra of the
// R-tree, the XY vector operations, orientation, the segment predicates, the crossing test, the
// envelope algebra), translated operator by operator into Gallina over an abstract ordinate carrier
// (coq/Base/FOps.v: record fops).  The files coq/Proofs/Funcs_tie_*.v instantiate the carrier with the
// one of the hand-written models (Z, Q) and prove, for all arguments, that the translated body and
// the model function agree; an edited body in the Go source therefore breaks the corresponding tie
// lemma (DESIGN.md A.8).
//
// The fragment: loop-free functions over float64, bool, integer-kinded named types (enumerations),
// structs of those (nested), tuples of results; statements `return`, `x := e`, `x = e`, `x op= e`,
// parallel assignment, assignment to a field of a local struct value, `var`, `if` (with init,
// else, else-if), `switch` (with or without tag; no fallthrough), blocks; expressions: + - * /,
// unary - and !, comparisons, && ||, struct literals, field selection, struct == / !=, calls of
// other functions and methods of the fragment (translated on demand, in dependency order),
// conversions float64(x), math.Min/Max/Abs/Sqrt/Hypot/IsNaN/IsInf(x, 0), integer and float
// constants.  A function returning `error` is translated to the boolean "the error is nil"
// (`return nil` -> true, a returned struct literal / fmt.Errorf / errors.New -> false); parameters
// of types outside the fragment are dropped when the translated body does not need them.
//
// Nothing is taken from the text, everything from the syntax tree; nothing is simplified.  A
// function that cannot be located, or whose body leaves the fragment, becomes
// `Definition <name> := untranslatable "<reason>"`, a value of a type no model function has: the
// tie lemma then fails to type-check (the obligation fails, never this tool).  Functions listed as
// `partial` are translated path by path: a path that runs into a statement outside the fragment
// yields `Unknown "<reason>"`, the others `Known <value>`.
//
// Only the standard library is used.
//
// A third output, coq/Gen/FuncsLoop.v (flag -oloop), holds functions WITH LOOPS over sequences (and the
// loop-free functions they call or that need the additional types below), produced by a third,
// independent generator state in the LOOP fragment (gen.loop; code in loop.go, carrier additions in
// coq/Base/FLoop.v), which adds to the base fragment:
//   - sequence-like types as Gallina lists: geom.Sequence (as the list of its Coordinates, accessed
//     through Length(), Get(i), GetXY(i); its representation as a flat []float64 is not translated),
//     []T, [N]T, variadic ...T; len(s) / seq.Length() is Z.of_nat (length l); s[i] / seq.Get(i) is
//     the option-valued [lookup l i]: the statement the access occurs in is wrapped in
//     `match lookup l i with Some e => .. | None => Unknown "index out of range" end`, so that an
//     access outside the range is an explicit outcome (never a default element); s[i] = v and
//     make([]T, n) likewise (list_set, make_list);
//   - `for i := a; i+c < b; i++ { body }` (also <=, i += k with a positive constant k) and
//     `for i, x := range s { body }`: structural recursion (for_loop on a fuel computed from the loop
//     header, the condition being translated literally and tested before every iteration; range_loop
//     on the list) carrying the tuple of the variables the body assigns; `continue`, `break`, `return`
//     inside the body are the explicit outcomes SNext / SBreak / SReturn of one iteration;
//   - ++ and --, the integer operators % and &, panic(..) (the outcome Unknown "panic: .."),
//     embedded structs (promoted fields), func-typed arguments (option: nil is None; calling nil is an
//     outcome), local func literals (let-bound functions returning partial T; a variable such a literal
//     refers to must not be assigned afterwards), math.Inf/Ceil/Floor/Ilogb/Ldexp/MaxFloat64 and
//     int(x) of a float (operations supplied by the instantiation, see the generated header);
//     likewise seq.CoordinatesType() and geom.NewSequence(floats, ctype), which depend on the flat
//     representation of a Sequence (operations f_seq_ctype, f_seq_new).
//
// A fourth output, coq/Gen/FuncsInt.v (flag -oint; code in int.go, carrier additions in coq/Base/FInt.v),
// holds INTEGER / BIT level functions: the varint and zig-zag code TWKB uses (geom/twkb.go, the callers in
// geom/twkb_write.go and geom/twkb_parser.go, and PutUvarint / Uvarint / PutVarint / Varint of
// encoding/binary, read from the GOROOT of the toolchain in use) and rtree's calculateBound,
// itemsAreHorizontal, Count, Extent.  It is produced by a fourth, independent generator state in the
// INTEGER fragment (gen.intm), which adds to the loop fragment:
//   - every fixed-width integer type as Z with the wrap-around WRITTEN OUT: the result of + - * / % & | ^
//     &^ << >> unary - and ^ and of every conversion T(x) is wrapped by wrap_u8..wrap_u64 (mod 2^n) or
//     wrap_i8..wrap_i64 (two's complement); int and uint are 64 bits wide; a shift count must be of an
//     unsigned type or a non-negative constant; the operator assignments %= &= |= ^= <<= >>= &^=;
//   - `for cond { body }` as while_loop with a fuel derived from the loop: the condition compares a
//     variable x of an unsigned type of width W and the body's top level contains `x >>= k`, k a positive
//     constant: ceil(W/k) iterations (10 for the 64-bit varint writer); LErr if it were ever exhausted;
//   - slice expressions s[lo:hi] with explicit bounds outcomes, append(a, b...), arrays with their length
//     (var buf [N]T is N zeros), constants of imported packages in array lengths;
//   - a function that writes through an argument - elements of a slice argument, fields of a pointer
//     receiver - returns the final value of that argument after its results (found by re-translation); at a
//     call the argument must be a variable v (or v[:]) of the caller, which is bound again to that value
//     (aliasing between distinct variables is not tracked);
//   - pointers to structs as in the extended fragment (argument / receiver / result = the value); a struct
//     FIELD of type *T is an option (nil = None, dereference of None = the outcome "nil pointer
//     dereference"); structs that are recursive through such fields become one mutual Inductive;
//   - `if A || B` / `if A && B` whose right operand needs a run-time check: rewritten into nested ifs.
//
// A function that contains a run-time check (or calls one that does) is translated with the result
// type `partial T`: Known v for a normal return, Unknown reason where the Go code panics.  A run-time
// check in the right operand of && or || is outside the fragment (the translation hoists the checks
// of a statement in front of it, in evaluation order).  Statements outside the fragment make the
// function `untranslatable "<reason>"` exactly as in the base fragment.
//
// A second output, coq/Gen/FuncsCarto.v (flag -ocarto), holds the nine map projections of the
// package carto (constructors, setters, Forward, Reverse and the helpers of carto/util.go), translated
// by the same machinery over the carrier extended with the elementary functions
// (coq/Base/FOpsT.v: record fops_t).  It is produced by a second, independent generator state in
// the EXTENDED fragment (gen.ext), which adds to the fragment above:
//   - pointer receivers and results of type *T, T a struct of the fragment: a pointer is translated
//     as the value it points to (aliasing is not tracked; accepted are only the receiver, `&T{..}`
//     and `return recv`); a method without results that assigns to fields of its receiver is
//     translated as the function returning the updated receiver value;
//   - fixed-size arrays [N]T as N-tuples, indexed by integer constants (reading and assignment);
//   - math.Pi (translated as the float64 operand t_pi, NOT folded into constant expressions: Go
//     folds `π/4` exactly and rounds once, the translation writes f_div t_pi 4 - the same real
//     number), math.Sin Cos Tan Asin Acos Atan Atan2 Exp Log Pow Copysign;
//   - the shift operators << and >> on integers (Z.shiftl, Z.shiftr; no wrap-around).
//
// None of the extensions is active for coq/Gen/Funcs.v.
//
//	go run . [-repo DIR] [-o FILE] [-ocarto FILE] [-oloop FILE] [-oint FILE]     (- writes to stdout)
package main

import (
	"bytes"
	"flag"
	"fmt"
	"go/ast"
	"go/constant"
	"go/parser"
	"go/token"
	"math/big"
	"os"
	"path/filepath"
	"sort"
	"strconv"
	"strings"
)

// ---------------------------------------------------------------------------------------------
// what to translate (in this order; callees are translated on demand before their callers)

type root struct {
	pkg     string // directory relative to the repository root
	key     string // "Func" or "Recv.Method"
	partial bool
}

var roots = []root{
	// 1. rtree/box.go (+ helpers in rtree/bulk.go)
	{"rtree", "fastMin", false}, {"rtree", "fastMax", false},
	{"rtree", "combine", false}, {"rtree", "overlap", false}, {"rtree", "squaredEuclideanDistance", false},
	// 2. geom/xy.go (+ helpers in geom/util.go)
	{"geom", "fastMin", false}, {"geom", "fastMax", false}, {"geom", "sortFloat64Pair", false},
	{"geom", "XY.validate", false},
	{"geom", "XY.Sub", false}, {"geom", "XY.Add", false}, {"geom", "XY.Scale", false},
	{"geom", "XY.Cross", false}, {"geom", "XY.Dot", false}, {"geom", "XY.Midpoint", false},
	{"geom", "XY.Length", false}, {"geom", "XY.lengthSq", false}, {"geom", "XY.Unit", false},
	{"geom", "XY.Less", false}, {"geom", "XY.distanceTo", false}, {"geom", "XY.distanceSquaredTo", false},
	{"geom", "XY.box", false}, {"geom", "XY.rotateCCW90", false}, {"geom", "XY.rotate180", false},
	{"geom", "XY.identity", false}, {"geom", "XY.proj", false}, {"geom", "XY.uncheckedEnvelope", false},
	// 3. orientation, segments, crossing
	{"geom", "orientation", false},
	{"geom", "onSegment", false},
	{"geom", "line.less", false}, {"geom", "line.uncheckedEnvelope", false}, {"geom", "line.box", false},
	{"geom", "line.length", false}, {"geom", "line.centroid", false},
	{"geom", "line.hasEndpoint", false}, {"geom", "line.intersectsXY", false},
	{"geom", "line.canonicalise", false}, {"geom", "canonicaliseLinePair", false},
	{"geom", "line.intersectLine", true},
	{"geom", "hasCrossing", false},
	// 4. geom/type_envelope.go
	{"geom", "newUncheckedEnvelope", false},
	{"geom", "Envelope.IsEmpty", false}, {"geom", "Envelope.IsPoint", false},
	{"geom", "Envelope.IsLine", false}, {"geom", "Envelope.IsRectangle", false},
	{"geom", "Envelope.Validate", false},
	{"geom", "Envelope.MinMaxXYs", false},
	{"geom", "Envelope.ExpandToIncludeXY", false}, {"geom", "Envelope.ExpandToIncludeEnvelope", false},
	{"geom", "Envelope.Contains", false}, {"geom", "Envelope.Intersects", false}, {"geom", "Envelope.Covers", false},
	{"geom", "Envelope.Width", false}, {"geom", "Envelope.Height", false}, {"geom", "Envelope.Area", false},
	{"geom", "Envelope.Distance", false}, {"geom", "Envelope.AsBox", false},
}

// the second output (coq/Gen/FuncsCarto.v): package carto, extended fragment
var cartoRoots = []root{
	// carto/util.go
	{"carto", "dtor", false}, {"carto", "rtod", false}, {"carto", "rtodxy", false},
	{"carto", "sq", false}, {"carto", "sec", false}, {"carto", "cot", false}, {"carto", "sign", false},
	{"carto", "pow", false}, {"carto", "atan2", false},
	// the nine projections: constructor, setters, Forward, Reverse
	{"carto", "NewEquirectangular", false}, {"carto", "Equirectangular.SetCentralMeridian", false},
	{"carto", "Equirectangular.SetStandardParallels", false},
	{"carto", "Equirectangular.Forward", false}, {"carto", "Equirectangular.Reverse", false},
	{"carto", "NewSinusoidal", false}, {"carto", "Sinusoidal.SetCentralMeridian", false},
	{"carto", "Sinusoidal.Forward", false}, {"carto", "Sinusoidal.Reverse", false},
	{"carto", "NewWebMercator", false},
	{"carto", "WebMercator.Forward", false}, {"carto", "WebMercator.Reverse", false},
	{"carto", "NewLambertCylindricalEqualArea", false}, {"carto", "LambertCylindricalEqualArea.SetCentralMeridian", false},
	{"carto", "LambertCylindricalEqualArea.Forward", false}, {"carto", "LambertCylindricalEqualArea.Reverse", false},
	{"carto", "NewOrthographic", false}, {"carto", "Orthographic.SetCenter", false},
	{"carto", "Orthographic.Forward", false}, {"carto", "Orthographic.Reverse", false},
	{"carto", "NewAzimuthalEquidistant", false}, {"carto", "AzimuthalEquidistant.SetCenter", false},
	{"carto", "AzimuthalEquidistant.Forward", false}, {"carto", "AzimuthalEquidistant.Reverse", false},
	{"carto", "NewLambertConformalConic", false}, {"carto", "LambertConformalConic.SetOrigin", false},
	{"carto", "LambertConformalConic.SetStandardParallels", false},
	{"carto", "LambertConformalConic.Forward", false}, {"carto", "LambertConformalConic.Reverse", false},
	{"carto", "NewAlbersEqualAreaConic", false}, {"carto", "AlbersEqualAreaConic.SetOrigin", false},
	{"carto", "AlbersEqualAreaConic.SetStandardParallels", false},
	{"carto", "AlbersEqualAreaConic.Forward", false}, {"carto", "AlbersEqualAreaConic.Reverse", false},
	{"carto", "NewEquidistantConic", false}, {"carto", "EquidistantConic.SetOrigin", false},
	{"carto", "EquidistantConic.SetStandardParallels", false},
	{"carto", "EquidistantConic.Forward", false}, {"carto", "EquidistantConic.Reverse", false},
}

// float constants of package carto, emitted as values of the carrier (exact rational value)
var cartoConsts = []string{"WGS84EllipsoidEquatorialRadiusM", "WGS84EllipsoidPolarRadiusM", "WGS84EllipsoidMeanRadiusM"}

// ---------------------------------------------------------------------------------------------
// loading

type constSpec struct {
	name  string
	typ   ast.Expr // declared (or inherited) type, nil when untyped
	expr  ast.Expr
	iota  int
	file  string
	val   constant.Value
	state int // 0 new, 1 in progress, 2 done, 3 failed
}

type pkg struct {
	rel      string
	name     string // last element of rel: prefix of the generated names
	fset     *token.FileSet
	files    map[string]*ast.File
	funcs    map[string]*ast.FuncDecl
	funcFile map[string]string
	types    map[string]*ast.TypeSpec
	typeFile map[string]string
	consts   map[string]*constSpec
	vars     map[string]bool
}

var warnings []string

func warn(format string, a ...interface{}) {
	w := fmt.Sprintf(format, a...)
	warnings = append(warnings, w)
	fmt.Fprintln(os.Stderr, "gen_funcs: WARNING: "+w)
}

func recvTypeName(fd *ast.FuncDecl) (name string, pointer bool) {
	if fd.Recv == nil || len(fd.Recv.List) == 0 {
		return "", false
	}
	t := fd.Recv.List[0].Type
	for {
		switch x := t.(type) {
		case *ast.StarExpr:
			pointer = true
			t = x.X
			continue
		case *ast.ParenExpr:
			t = x.X
			continue
		case *ast.Ident:
			return x.Name, pointer
		}
		return "?", pointer
	}
}

func hasBuildConstraint(f *ast.File) bool {
	for _, cg := range f.Comments {
		if cg.Pos() >= f.Package {
			break
		}
		for _, c := range cg.List {
			if strings.HasPrefix(c.Text, "//go:build") || strings.HasPrefix(c.Text, "// +build") {
				return true
			}
		}
	}
	return false
}

func load(repo, rel string) *pkg {
	p := &pkg{rel: rel, name: filepath.Base(rel), fset: token.NewFileSet(), files: map[string]*ast.File{},
		funcs: map[string]*ast.FuncDecl{}, funcFile: map[string]string{}, types: map[string]*ast.TypeSpec{},
		typeFile: map[string]string{}, consts: map[string]*constSpec{}, vars: map[string]bool{}}
	dir := filepath.Join(repo, rel)
	if strings.HasPrefix(rel, "GOROOT:") {
		dir = filepath.Join(goroot(), "src", filepath.FromSlash(strings.TrimPrefix(rel, "GOROOT:")))
		p.rel = strings.TrimPrefix(rel, "GOROOT:")
	}
	ents, err := os.ReadDir(dir)
	if err != nil {
		warn("cannot read %s: %v", dir, err)
		return p
	}
	var names []string
	for _, e := range ents {
		n := e.Name()
		if e.IsDir() || !strings.HasSuffix(n, ".go") || strings.HasSuffix(n, "_test.go") {
			continue
		}
		names = append(names, n)
	}
	sort.Strings(names)
	for _, n := range names {
		f, err := parser.ParseFile(p.fset, filepath.Join(dir, n), nil, parser.SkipObjectResolution|parser.ParseComments)
		if err != nil {
			warn("parse error in %s/%s: %v", rel, n, err)
		}
		if f == nil || hasBuildConstraint(f) { // files behind a build tag (verif hooks) are not part of the default build
			continue
		}
		p.files[n] = f
		for _, d := range f.Decls {
			switch d := d.(type) {
			case *ast.FuncDecl:
				key := d.Name.Name
				if r, _ := recvTypeName(d); r != "" {
					key = r + "." + key
				}
				if _, dup := p.funcs[key]; dup {
					warn("%s: %s declared twice", rel, key)
				}
				p.funcs[key] = d
				p.funcFile[key] = n
			case *ast.GenDecl:
				switch d.Tok {
				case token.TYPE:
					for _, s := range d.Specs {
						ts := s.(*ast.TypeSpec)
						p.types[ts.Name.Name] = ts
						p.typeFile[ts.Name.Name] = n
					}
				case token.VAR:
					for _, s := range d.Specs {
						for _, id := range s.(*ast.ValueSpec).Names {
							p.vars[id.Name] = true
						}
					}
				case token.CONST:
					var lastT ast.Expr
					var lastV []ast.Expr
					for i, s := range d.Specs {
						vs := s.(*ast.ValueSpec)
						if len(vs.Values) > 0 {
							lastT, lastV = vs.Type, vs.Values
						}
						for j, id := range vs.Names {
							cs := &constSpec{name: id.Name, typ: lastT, iota: i, file: n}
							if j < len(lastV) {
								cs.expr = lastV[j]
							}
							p.consts[id.Name] = cs
						}
					}
				}
			}
		}
	}
	return p
}

// value of a package-level constant (integers and floats only)
func (p *pkg) constVal(name string) (constant.Value, bool) {
	cs := p.consts[name]
	if cs == nil {
		return nil, false
	}
	switch cs.state {
	case 2:
		return cs.val, true
	case 1, 3:
		return nil, false
	}
	cs.state = 1
	v, ok := p.evalConst(cs.expr, cs.iota)
	if !ok {
		cs.state = 3
		return nil, false
	}
	cs.val, cs.state = v, 2
	return v, true
}

func (p *pkg) evalConst(e ast.Expr, iota int) (constant.Value, bool) {
	switch x := e.(type) {
	case nil:
		return nil, false
	case *ast.ParenExpr:
		return p.evalConst(x.X, iota)
	case *ast.BasicLit:
		if x.Kind == token.INT || x.Kind == token.FLOAT {
			v := constant.MakeFromLiteral(x.Value, x.Kind, 0)
			return v, v.Kind() != constant.Unknown
		}
		return nil, false
	case *ast.Ident:
		if x.Name == "iota" {
			return constant.MakeInt64(int64(iota)), true
		}
		return p.constVal(x.Name)
	case *ast.UnaryExpr:
		v, ok := p.evalConst(x.X, iota)
		if !ok || (x.Op != token.SUB && x.Op != token.ADD) {
			return nil, false
		}
		return constant.UnaryOp(x.Op, v, 0), true
	case *ast.BinaryExpr:
		a, ok1 := p.evalConst(x.X, iota)
		b, ok2 := p.evalConst(x.Y, iota)
		if !ok1 || !ok2 {
			return nil, false
		}
		switch x.Op {
		case token.ADD, token.SUB, token.MUL:
			return constant.BinaryOp(a, x.Op, b), true
		case token.QUO:
			if constant.Sign(b) == 0 {
				return nil, false
			}
			if a.Kind() == constant.Int && b.Kind() == constant.Int {
				return constant.BinaryOp(a, token.QUO_ASSIGN, b), true
			}
			return constant.BinaryOp(a, token.QUO, b), true
		}
		return nil, false
	case *ast.CallExpr: // conversion T(c)
		if len(x.Args) == 1 {
			if _, ok := x.Fun.(*ast.Ident); ok {
				return p.evalConst(x.Args[0], iota)
			}
		}
	}
	return nil, false
}

// ---------------------------------------------------------------------------------------------
// types of the fragment

type kind int

const (
	kFloat kind = iota
	kBool
	kInt
	kStruct
	kError // translated to bool: "is nil"
	kTuple
	kOpaque  // outside the fragment (string, slices, interfaces, ...)
	kUntyped // numeric constant without a type yet
	kArray   // extended fragment only: [N]T, translated as an N-tuple (elems[0] is T, n is N)
	kList    // loop fragment only: Sequence, []T, [N]T, ...T, translated as list T (elems[0] is T)
	kFunc    // loop fragment only: a func-typed argument (elems[0] the result, elems[1:] the arguments): option (A -> B)
	kClosure // loop fragment only: a local func literal (elems as kFunc); not a value, only called
	kPtr     // integer fragment only: a struct field of type *T, T a struct (name, p): option T, nil is None
)

type field struct {
	name string
	t    *ty
	emb  bool // loop fragment: an embedded struct (its fields are promoted)
}

type ty struct {
	k      kind
	name   string // named type ("" for predeclared)
	p      *pkg   // package of the named type
	fields []field
	elems  []*ty
	coq    string // struct: name of the record
	file   string
	n      int    // kArray: the length; kList (integer fragment): the length of an array type, 0 for a slice
	ik     string // integer fragment: the predeclared integer type underneath (uint64, int64, int, uint8, ..)
}

var (
	tFloat = &ty{k: kFloat}
	tBool  = &ty{k: kBool}
	tInt   = &ty{k: kInt}
	tError = &ty{k: kError}
)

func (t *ty) String() string {
	switch t.k {
	case kFloat:
		return "float64"
	case kBool:
		return "bool"
	case kInt:
		if t.name != "" {
			return t.name
		}
		return "int"
	case kStruct:
		return t.name
	case kError:
		return "error"
	case kTuple:
		var s []string
		for _, e := range t.elems {
			s = append(s, e.String())
		}
		return "(" + strings.Join(s, ", ") + ")"
	case kUntyped:
		return "untyped constant"
	case kArray:
		return fmt.Sprintf("[%d]%s", t.n, t.elems[0])
	case kList:
		if t.name != "" {
			return t.name
		}
		return "[]" + t.elems[0].String()
	case kFunc, kClosure:
		var s []string
		for _, e := range t.elems[1:] {
			s = append(s, e.String())
		}
		return "func(" + strings.Join(s, ", ") + ") " + t.elems[0].String()
	case kPtr:
		return "*" + t.name
	}
	return "opaque " + t.name
}

func (t *ty) coqType() string {
	switch t.k {
	case kFloat:
		return "F"
	case kBool, kError:
		return "bool"
	case kInt:
		return "Z"
	case kStruct:
		return "(" + t.coq + " F)"
	case kTuple:
		var s []string
		for _, e := range t.elems {
			s = append(s, e.coqType())
		}
		return "(" + strings.Join(s, " * ") + ")%type"
	case kArray:
		if t.n == 1 {
			return t.elems[0].coqType()
		}
		s := make([]string, t.n)
		for i := range s {
			s[i] = t.elems[0].coqType()
		}
		return "(" + strings.Join(s, " * ") + ")%type"
	case kList:
		return "(list " + t.elems[0].coqType() + ")"
	case kFunc:
		s := ""
		for _, e := range t.elems[1:] {
			s += e.coqType() + " -> "
		}
		return "(option (" + s + t.elems[0].coqType() + "))"
	case kPtr:
		return "(option (" + t.p.name + "_" + t.name + " F))"
	}
	fail("type %s is outside the fragment", t)
	return ""
}

func sameType(a, b *ty) bool {
	if a.k != b.k {
		return false
	}
	switch a.k {
	case kStruct, kOpaque, kPtr:
		return a.name == b.name && a.p == b.p
	case kInt:
		return a.name == b.name && (a.ik == "" || b.ik == "" || a.ik == b.ik)
	case kTuple:
		if len(a.elems) != len(b.elems) {
			return false
		}
		for i := range a.elems {
			if !sameType(a.elems[i], b.elems[i]) {
				return false
			}
		}
	case kArray:
		return a.n == b.n && sameType(a.elems[0], b.elems[0])
	case kList:
		return sameType(a.elems[0], b.elems[0])
	case kFunc, kClosure:
		if len(a.elems) != len(b.elems) {
			return false
		}
		for i := range a.elems {
			if !sameType(a.elems[i], b.elems[i]) {
				return false
			}
		}
	}
	return true
}

// ---------------------------------------------------------------------------------------------
// generator state

type trErr string

func fail(format string, a ...interface{}) { panic(trErr(fmt.Sprintf(format, a...))) }

type funcInfo struct {
	p        *pkg
	key      string
	coq      string
	state    int // 1 in progress, 2 done, 3 failed
	reason   string
	dropped  []bool // per parameter (receiver first): of a type outside the fragment, not passed
	variadic bool
	params   []*ty
	result   *ty
	partial  bool
	eff      bool // loop fragment: the body can panic at run time (indexing, loops, ..): the result is partial T
	// integer fragment: the arguments (receiver first) the body writes through - elements of a slice,
	// fields of a pointer receiver; their final values are returned after the results
	outs     []int
	outTypes []*ty
	pnames   []string // Go names of the arguments (receiver first)
}

type item struct {
	comment string
	def     string
}

type gen struct {
	repo     string
	pkgs     map[string]*pkg
	funcs    map[string]*funcInfo // pkg.rel + ":" + key
	structs  map[string]*ty
	sorder   []*ty
	named    map[string]*ty
	consts   map[string]bool
	citems   []item
	items    []item
	eqbDone  map[string]bool
	globals  map[string]bool
	okFuncs  []string
	badFuncs []string
	ext      bool // the extended fragment (second output, package carto)
	loop     bool // the loop fragment (third output, coq/Gen/FuncsLoop.v)
	seqOps   bool // loop fragment: Sequence.CoordinatesType / NewSequence occur (operations f_seq_ctype, f_seq_new)
	intm     bool // the integer fragment (fourth output, coq/Gen/FuncsInt.v); implies loop and ptr
	ptr      bool // pointers to structs as the values they point to (as in the extended fragment)
	// integer fragment: recursive struct types.  recDeps[k] lists the structs that refer (through a pointer
	// field) to the struct k while k was being resolved: they are emitted with k as one mutual Inductive
	recDeps map[string][]*ty
	inGroup map[*ty]bool
}

func (g *gen) pkgOf(rel string) *pkg {
	if p, ok := g.pkgs[rel]; ok {
		return p
	}
	p := load(g.repo, rel)
	g.pkgs[rel] = p
	return p
}

// resolve a type expression occurring in file `file` of package p
func (g *gen) typeOf(p *pkg, file *ast.File, e ast.Expr) *ty {
	switch x := e.(type) {
	case *ast.ParenExpr:
		return g.typeOf(p, file, x.X)
	case *ast.Ident:
		switch x.Name {
		case "float64":
			return tFloat
		case "bool":
			return tBool
		case "int", "int8", "int16", "int32", "int64", "uint", "uint8", "uint16", "uint32", "uint64", "byte", "rune":
			if g.intm {
				ik := x.Name
				if ik == "byte" {
					ik = "uint8"
				} else if ik == "rune" {
					ik = "int32"
				}
				return &ty{k: kInt, name: "", ik: ik}
			}
			return &ty{k: kInt, name: ""}
		case "error":
			return tError
		case "string", "float32", "complex128", "any":
			return &ty{k: kOpaque, name: x.Name}
		}
		return g.namedType(p, x.Name)
	case *ast.SelectorExpr:
		if id, ok := x.X.(*ast.Ident); ok {
			if q := g.importedPkg(file, id.Name); q != nil {
				return g.namedType(q, x.Sel.Name)
			}
		}
	case *ast.StarExpr:
		// extended fragment: a pointer to a struct of the fragment is translated as the struct value
		if g.ext || g.ptr {
			if t := g.typeOf(p, file, x.X); t.k == kStruct {
				return t
			}
		}
	case *ast.ArrayType:
		if g.loop {
			// loop fragment: slices and arrays are lists (the length of an array type is not kept)
			if _, isEllipsis := x.Len.(*ast.Ellipsis); !isEllipsis {
				et := g.typeOf(p, file, x.Elt)
				if et.k == kFloat || et.k == kInt || et.k == kBool || et.k == kStruct {
					n := 0
					if g.intm && x.Len != nil {
						// integer fragment: the length of an array type is kept (its zero value has that many elements)
						n = g.arrayLen(p, file, x.Len)
					}
					return &ty{k: kList, elems: []*ty{et}, n: n}
				}
			}
		}
		if g.ext && x.Len != nil {
			if v, ok := p.evalConst(x.Len, 0); ok {
				if r, ok := ratOfConst(v); ok && r.IsInt() && r.Num().IsInt64() && r.Num().Int64() >= 1 && r.Num().Int64() <= 16 {
					et := g.typeOf(p, file, x.Elt)
					if et.k == kFloat || et.k == kInt || et.k == kBool || et.k == kStruct {
						return &ty{k: kArray, elems: []*ty{et}, n: int(r.Num().Int64())}
					}
				}
			}
		}
	case *ast.FuncType:
		// loop fragment: func(A, ..) B as the type of an argument
		if g.loop && x.TypeParams == nil && x.Results != nil && len(x.Results.List) == 1 && len(x.Results.List[0].Names) <= 1 {
			rt := g.typeOf(p, file, x.Results.List[0].Type)
			elems := []*ty{rt}
			ok := rt.k == kFloat || rt.k == kInt || rt.k == kBool || rt.k == kStruct
			for _, f := range x.Params.List {
				at := g.typeOf(p, file, f.Type)
				ok = ok && (at.k == kFloat || at.k == kInt || at.k == kBool || at.k == kStruct)
				cnt := len(f.Names)
				if cnt == 0 {
					cnt = 1
				}
				for i := 0; i < cnt; i++ {
					elems = append(elems, at)
				}
			}
			if ok && len(elems) > 1 {
				return &ty{k: kFunc, elems: elems}
			}
		}
	}
	return &ty{k: kOpaque, name: exprString(e)}
}

func (g *gen) importedPkg(file *ast.File, local string) *pkg {
	if file == nil {
		return nil
	}
	for _, im := range file.Imports {
		path, err := strconv.Unquote(im.Path.Value)
		if err != nil {
			continue
		}
		name := path[strings.LastIndex(path, "/")+1:]
		if im.Name != nil {
			name = im.Name.Name
		}
		if name != local {
			continue
		}
		if g.intm && path == "encoding/binary" {
			// integer fragment: the varint functions of the standard library of the toolchain in use
			return g.pkgOf("GOROOT:" + path)
		}
		// a package of the repository: the import path ends with its directory
		for _, cand := range []string{"rtree", "geom"} {
			if strings.HasSuffix(path, "/simplefeatures/"+cand) {
				return g.pkgOf(cand)
			}
		}
	}
	return nil
}

func importPath(file *ast.File, local string) string {
	for _, im := range file.Imports {
		path, err := strconv.Unquote(im.Path.Value)
		if err != nil {
			continue
		}
		name := path[strings.LastIndex(path, "/")+1:]
		if im.Name != nil {
			name = im.Name.Name
		}
		if name == local {
			return path
		}
	}
	return ""
}

func (g *gen) namedType(p *pkg, name string) *ty {
	k := p.rel + ":" + name
	if t, ok := g.named[k]; ok {
		if t == nil {
			return &ty{k: kOpaque, name: name, p: p} // recursive type
		}
		return t
	}
	g.named[k] = nil
	ts := p.types[name]
	t := &ty{k: kOpaque, name: name, p: p}
	if g.loop && p.rel == "geom" && name == "Sequence" && ts != nil {
		// loop fragment: a Sequence is the list of its Coordinates (accessed through Length, Get, GetXY)
		if et := g.namedType(p, "Coordinates"); et.k == kStruct {
			t = &ty{k: kList, name: name, p: p, elems: []*ty{et}}
			g.named[k] = t
			return t
		}
	}
	if ts != nil {
		file := p.files[p.typeFile[name]]
		switch u := ts.Type.(type) {
		case *ast.StructType:
			ok := true
			var fs []field
			for _, f := range u.Fields.List {
				ft := g.typeOf(p, file, f.Type)
				if se, isPtr := f.Type.(*ast.StarExpr); isPtr && g.intm {
					ft = g.ptrField(p, k, se)
				}
				if g.loop && len(f.Names) == 0 && ft.k == kStruct {
					// loop fragment: an embedded struct is a field named after its type
					if id, isId := f.Type.(*ast.Ident); isId {
						fs = append(fs, field{id.Name, ft, true})
						continue
					}
				}
				if ft.k == kOpaque || (ft.k == kError && !g.intm) || ft.k == kFunc || len(f.Names) == 0 {
					ok = false
					break
				}
				for _, id := range f.Names {
					fs = append(fs, field{id.Name, ft, false})
				}
			}
			if ok && len(fs) > 0 {
				t = &ty{k: kStruct, name: name, p: p, fields: fs, coq: p.name + "_" + name, file: p.typeFile[name]}
				g.structs[k] = t
				g.sorder = append(g.sorder, t) // nested structs were appended by the recursive calls above
				g.globals[t.coq] = true
				g.noteRecFields(t)
			} else if len(g.recDeps[k]) > 0 {
				g.dropRecDeps(k) // structs that counted on this one being in the fragment
			}
		default:
			ut := g.typeOf(p, file, ts.Type)
			switch ut.k {
			case kInt:
				t = &ty{k: kInt, name: name, p: p, ik: ut.ik}
			case kFloat:
				t = &ty{k: kFloat, name: name, p: p}
			case kBool:
				t = &ty{k: kBool, name: name, p: p}
			}
		}
	}
	g.named[k] = t
	return t
}

// ---------------------------------------------------------------------------------------------
// translation of one function

type local struct {
	coq string
	t   *ty
}

type ctx struct {
	g       *gen
	p       *pkg
	file    *ast.File
	fi      *funcInfo
	scopes  []map[string]*local
	used    map[string]bool
	named   []string // named results
	noCatch int
	tmp     int
	// extended fragment: name of the pointer receiver of a method without results (the translated
	// function returns the receiver value as updated by the body)
	voidRecv   string
	indexExprs []ast.Expr // index expressions of the assignment targets seen so far (see lvalue)
	// loop fragment (loop.go)
	pend     []pending       // run-time checks of the expressions of the statement being translated
	modes    []int           // innermost last: 0 body of a func literal, 1 body of a loop
	loops    []string        // innermost last: the state tuple of the enclosing loops
	closure  int             // depth of func literal bodies
	resTy    []*ty           // result types of the enclosing func literals
	capBase  []int           // scope depth at the start of the enclosing func literals
	captured map[*local]bool // variables a func literal refers to: never assigned afterwards
	noEff    int             // > 0: inside `let vars := if .. then .. else ..` (no run-time checks there)
	// integer fragment (int.go)
	refLocals map[*local]int // arguments writes through which the caller sees (slices, pointer receiver) -> index
	loopScope []int          // scope depth at the start of the enclosing loop bodies
	scTry     int            // > 0: trying whether the right operand of && / || needs a run-time check
}

var reserved = map[string]bool{"F": true, "ops": true, "as": true, "at": true, "cofix": true, "else": true, "end": true,
	"exists": true, "exists2": true, "fix": true, "for": true, "forall": true, "fun": true, "if": true, "IF": true, "in": true,
	"let": true, "match": true, "mod": true, "Prop": true, "return": true, "Set": true, "then": true, "Type": true,
	"using": true, "where": true, "with": true, "true": true, "false": true, "negb": true, "andb": true, "orb": true,
	"fst": true, "snd": true, "pair": true, "Z": true, "bool": true, "Known": true, "Unknown": true, "xorb": true,
	"untranslatable": true, "partial": true, "fops": true, "nil": true, "cons": true, "list": true, "option": true,
	"Some": true, "None": true, "O": true, "S": true, "nat": true, "I": true, "eq": true, "id": true, "tt": true,
	"unit": true, "prod": true, "sum": true, "inl": true, "inr": true, "not": true, "and": true, "or": true, "Q": true,
	// words the orchestrator forbids anywhere in a Coq source (tools/check.py FORBIDDEN)
	"admit": true, "Admitted": true, "Axiom": true, "Axioms": true, "Parameter": true, "Parameters": true,
	"Conjecture": true, "Conjectures": true, "bypass_check": true}

func coqIdent(s string) string {
	var b strings.Builder
	for i, r := range s {
		switch {
		case r == '_' || r >= 'a' && r <= 'z' || r >= 'A' && r <= 'Z':
			b.WriteRune(r)
		case r >= '0' && r <= '9' && i > 0:
			b.WriteRune(r)
		default:
			fmt.Fprintf(&b, "u%04x", r)
		}
	}
	return b.String()
}

func (c *ctx) push() { c.scopes = append(c.scopes, map[string]*local{}) }
func (c *ctx) pop()  { c.scopes = c.scopes[:len(c.scopes)-1] }

func (c *ctx) lookup(name string) *local {
	for i := len(c.scopes) - 1; i >= 0; i-- {
		if l, ok := c.scopes[i][name]; ok {
			if len(c.capBase) > 0 && i < c.capBase[len(c.capBase)-1] {
				if c.captured == nil {
					c.captured = map[*local]bool{}
				}
				c.captured[l] = true
			}
			return l
		}
	}
	return nil
}

// further names the second output must not bind
var extReserved = map[string]bool{"T": true, "fops_t": true, "t_base": true}

func (c *ctx) fresh(base string) string {
	n := coqIdent(base)
	if n == "_" || n == "" {
		n = "v"
	}
	cand := n
	for i := 1; reserved[cand] || (c.g.loop && loopReserved[cand]) || (c.g.intm && intReserved[cand]) || (c.g.ext && (extReserved[cand] || strings.HasPrefix(cand, "t_"))) || c.used[cand] || c.g.globals[cand] || strings.HasPrefix(cand, "f_") || strings.HasPrefix(cand, "Mk_"); i++ {
		cand = fmt.Sprintf("%s_%d", n, i)
	}
	c.used[cand] = true
	return cand
}

func (c *ctx) declare(name string, t *ty) string {
	if name == "_" {
		return "_"
	}
	l := &local{coq: c.fresh(name), t: t}
	c.scopes[len(c.scopes)-1][name] = l
	return l.coq
}

type val struct {
	code string
	t    *ty
	c    *big.Rat // kUntyped: the value
}

func zlit(z *big.Int) string {
	if z.Sign() < 0 {
		return "(" + z.String() + ")%Z"
	}
	return z.String() + "%Z"
}

// a numeric constant at type t
func (c *ctx) constAt(r *big.Rat, t *ty) val {
	switch t.k {
	case kFloat:
		if r.IsInt() {
			return val{code: "(f_of_Z ops " + zlit(r.Num()) + ")", t: t}
		}
		return val{code: "(f_div ops (f_of_Z ops " + zlit(r.Num()) + ") (f_of_Z ops " + zlit(r.Denom()) + "))", t: t}
	case kInt:
		if r.IsInt() {
			return val{code: zlit(r.Num()), t: t}
		}
	}
	fail("constant %s used at type %s", r.RatString(), t)
	return val{}
}

// convert v to type t (only untyped constants are converted; otherwise the types must agree)
func (c *ctx) conv(v val, t *ty, what string) val {
	if v.t.k == kUntyped {
		return c.constAt(v.c, t)
	}
	if v.t.k == kPtr && t.k == kStruct && v.t.name == t.name && v.t.p == t.p {
		// integer fragment: a pointer field passed where the translation takes the struct value
		return c.deref(v)
	}
	if !sameType(v.t, t) {
		fail("%s: have %s, want %s", what, v.t, t)
	}
	return v
}

func (c *ctx) zero(t *ty) string {
	switch t.k {
	case kFloat:
		return "(f_of_Z ops 0%Z)"
	case kBool:
		return "false"
	case kInt:
		return "0%Z"
	case kError:
		return "true"
	case kStruct:
		s := "(Mk_" + t.coq
		for _, f := range t.fields {
			s += " " + c.zero(f.t)
		}
		return s + ")"
	case kTuple:
		var s []string
		for _, e := range t.elems {
			s = append(s, c.zero(e))
		}
		return "(" + strings.Join(s, ", ") + ")"
	case kArray:
		s := make([]string, t.n)
		for i := range s {
			s[i] = c.zero(t.elems[0])
		}
		return c.tuple(s)
	case kPtr:
		return "None"
	case kList:
		if t.n > 0 {
			return fmt.Sprintf("(repeat %s %d)", c.zero(t.elems[0]), t.n)
		}
		return "(@nil " + t.elems[0].coqType() + ")"
	}
	fail("no zero value of type %s in the fragment", t)
	return ""
}

func proj(t *ty, f string) string { return t.coq + "_" + coqIdent(f) }

// element i of the n-tuple code (Coq's tuples nest to the left: (a, b, c) = ((a, b), c))
func tupleElem(code string, n, i int) string {
	if n == 1 {
		return code
	}
	s := code
	for k := n - 1; k > i && k > 0; k-- {
		s = "(fst " + s + ")"
	}
	if i == 0 {
		return s
	}
	return "(snd " + s + ")"
}

// a constant array index (extended fragment)
func (c *ctx) constIndex(e ast.Expr, t *ty) int {
	v := c.expr(e, tInt)
	if v.t.k != kUntyped || !v.c.IsInt() || !v.c.Num().IsInt64() {
		fail("array index %s is not an integer constant", exprString(e))
	}
	i := v.c.Num().Int64()
	if i < 0 || i >= int64(t.n) {
		fail("array index %d out of range [0, %d)", i, t.n)
	}
	return int(i)
}

func (c *ctx) fieldOf(t *ty, name string) (field, bool) {
	if t.k == kStruct {
		for _, f := range t.fields {
			if f.name == name {
				return f, true
			}
		}
	}
	return field{}, false
}

func ratOfConst(v constant.Value) (*big.Rat, bool) {
	switch v.Kind() {
	case constant.Int:
		if z, ok := constant.Val(v).(*big.Int); ok {
			return new(big.Rat).SetInt(z), true
		}
		if i, ok := constant.Int64Val(v); ok {
			return new(big.Rat).SetInt64(i), true
		}
	case constant.Float:
		switch x := constant.Val(v).(type) {
		case *big.Rat:
			return x, true
		case *big.Float:
			if r, _ := x.Rat(nil); r != nil {
				return r, true
			}
		case float64:
			r := new(big.Rat)
			if r.SetFloat64(x) != nil {
				return r, true
			}
		}
	}
	return nil, false
}

func isNilIdent(e ast.Expr) bool {
	id, ok := e.(*ast.Ident)
	return ok && id.Name == "nil"
}

func unparen(e ast.Expr) ast.Expr {
	for {
		p, ok := e.(*ast.ParenExpr)
		if !ok {
			return e
		}
		e = p.X
	}
}

// expression of any type of the fragment; hint (may be nil) is the type an untyped constant should take
func (c *ctx) expr(e ast.Expr, hint *ty) val {
	switch x := e.(type) {
	case *ast.ParenExpr:
		return c.expr(x.X, hint)
	case *ast.BasicLit:
		if x.Kind == token.INT || x.Kind == token.FLOAT {
			v := constant.MakeFromLiteral(x.Value, x.Kind, 0)
			if r, ok := ratOfConst(v); ok {
				return val{t: &ty{k: kUntyped}, c: r}
			}
		}
		fail("literal %s is outside the fragment", x.Value)
	case *ast.Ident:
		if l := c.lookup(x.Name); l != nil {
			if l.t.k == kOpaque {
				fail("uses %s of type %s (outside the fragment)", x.Name, l.t)
			}
			if l.t.k == kClosure {
				fail("the func literal %s is used other than in a call", x.Name)
			}
			return val{code: l.coq, t: l.t}
		}
		switch x.Name {
		case "true":
			return val{code: "true", t: tBool}
		case "false":
			return val{code: "false", t: tBool}
		case "nil":
			fail("nil outside a comparison with an error")
		}
		if cs := c.p.consts[x.Name]; cs != nil {
			return c.g.constant(c.p, cs)
		}
		fail("identifier %s is not a local variable or a numeric constant", x.Name)
	case *ast.IndexExpr:
		if c.g.loop {
			return c.indexList(x)
		}
		if !c.g.ext {
			break
		}
		a := c.expr(x.X, nil)
		if a.t.k != kArray {
			fail("index expression on %s is outside the fragment", a.t)
		}
		return val{code: tupleElem(a.code, a.t.n, c.constIndex(x.Index, a.t)), t: a.t.elems[0]}
	case *ast.SelectorExpr:
		if id, ok := x.X.(*ast.Ident); ok && c.lookup(id.Name) == nil {
			if c.g.ext && c.p.consts[id.Name] == nil && !c.p.vars[id.Name] && importPath(c.file, id.Name) == "math" && x.Sel.Name == "Pi" {
				return val{code: "(t_pi T)", t: tFloat}
			}
			if q := c.g.importedPkg(c.file, id.Name); q != nil {
				if cs := q.consts[x.Sel.Name]; cs != nil {
					return c.g.constant(q, cs)
				}
			}
			if c.g.loop && c.p.consts[id.Name] == nil && !c.p.vars[id.Name] && importPath(c.file, id.Name) == "math" && x.Sel.Name == "MaxFloat64" {
				// (2^53 - 1) * 2^971, the exact value of the constant
				m := new(big.Int).Sub(new(big.Int).Lsh(big.NewInt(1), 53), big.NewInt(1))
				return val{t: &ty{k: kUntyped}, c: new(big.Rat).SetInt(m.Lsh(m, 971))}
			}
			if c.p.consts[id.Name] == nil {
				fail("%s.%s is outside the fragment", id.Name, x.Sel.Name)
			}
		}
		r := c.expr(x.X, nil)
		if r.t.k == kPtr {
			r = c.deref(r)
		}
		f, ok := c.fieldOf(r.t, x.Sel.Name)
		if !ok {
			if v, ok := c.promoted(r, x.Sel.Name); ok {
				return v
			}
			fail("%s has no field %s in the fragment", r.t, x.Sel.Name)
		}
		return val{code: "(" + proj(r.t, f.name) + " " + r.code + ")", t: f.t}
	case *ast.UnaryExpr:
		switch x.Op {
		case token.SUB, token.ADD:
			v := c.expr(x.X, hint)
			switch v.t.k {
			case kUntyped:
				if x.Op == token.SUB {
					return val{t: v.t, c: new(big.Rat).Neg(v.c)}
				}
				return v
			case kFloat:
				if x.Op == token.SUB {
					return val{code: "(f_neg ops " + v.code + ")", t: v.t}
				}
				return v
			case kInt:
				if x.Op == token.SUB {
					return val{code: c.wrapInt("(Z.opp "+v.code+")", v.t), t: v.t}
				}
				return v
			}
			fail("unary %s on %s", x.Op, v.t)
		case token.XOR:
			if c.g.intm {
				v := c.expr(x.X, hint)
				if v.t.k == kInt {
					return val{code: c.wrapInt("(Z.lnot "+v.code+")", v.t), t: v.t}
				}
				fail("unary ^ on %s", v.t)
			}
		case token.NOT:
			v := c.expr(x.X, tBool)
			if v.t.k != kBool {
				fail("! on %s", v.t)
			}
			return val{code: "(negb " + v.code + ")", t: v.t}
		case token.AND:
			// extended fragment: &T{..} is the struct value (a pointer is translated as what it points to)
			if cl, ok := unparen(x.X).(*ast.CompositeLit); ok && (c.g.ext || c.g.ptr) {
				return c.composite(cl)
			}
		}
		fail("unary operator %s is outside the fragment", x.Op)
	case *ast.BinaryExpr:
		return c.binary(x, hint)
	case *ast.SliceExpr:
		if c.g.intm {
			return c.sliceExpr(x)
		}
	case *ast.CompositeLit:
		return c.composite(x)
	case *ast.CallExpr:
		return c.call(x, hint)
	}
	fail("expression %s is outside the fragment", exprString(e))
	return val{}
}

func exprString(e ast.Expr) string {
	switch x := e.(type) {
	case *ast.Ident:
		return x.Name
	case *ast.SelectorExpr:
		return exprString(x.X) + "." + x.Sel.Name
	case *ast.CallExpr:
		return exprString(x.Fun) + "(...)"
	case *ast.StarExpr:
		return "*" + exprString(x.X)
	case *ast.ArrayType:
		return "[]" + exprString(x.Elt)
	case *ast.IndexExpr:
		return exprString(x.X) + "[...]"
	case *ast.SliceExpr:
		return exprString(x.X) + "[:]"
	case *ast.BasicLit:
		return x.Value
	case *ast.ParenExpr:
		return "(" + exprString(x.X) + ")"
	case *ast.UnaryExpr:
		return x.Op.String() + exprString(x.X)
	case *ast.BinaryExpr:
		return exprString(x.X) + " " + x.Op.String() + " " + exprString(x.Y)
	case *ast.CompositeLit:
		if x.Type != nil {
			return exprString(x.Type) + "{...}"
		}
		return "{...}"
	case *ast.FuncLit:
		return "func literal"
	case *ast.InterfaceType:
		return "interface"
	case *ast.Ellipsis:
		return "..."
	}
	return fmt.Sprintf("%T", e)
}

// a package-level numeric constant: typed integer constants become Gallina definitions
func (g *gen) constant(p *pkg, cs *constSpec) val {
	if g.ext && cs.typ == nil {
		// const π = math.Pi  (extended fragment): the operand t_pi
		if sel, ok := unparen(cs.expr).(*ast.SelectorExpr); ok && sel.Sel.Name == "Pi" {
			if id, ok := sel.X.(*ast.Ident); ok && p.consts[id.Name] == nil && !p.vars[id.Name] && importPath(p.files[cs.file], id.Name) == "math" {
				return val{code: "(t_pi T)", t: tFloat}
			}
		}
	}
	v, ok := p.constVal(cs.name)
	if !ok {
		fail("constant %s is not a numeric constant the generator can evaluate", cs.name)
	}
	r, ok := ratOfConst(v)
	if !ok {
		fail("constant %s has no exact value", cs.name)
	}
	if cs.typ == nil {
		return val{t: &ty{k: kUntyped}, c: r}
	}
	t := g.typeOf(p, p.files[cs.file], cs.typ)
	switch t.k {
	case kInt:
		if !r.IsInt() {
			fail("integer constant %s has value %s", cs.name, r.RatString())
		}
		name := p.name + "_" + coqIdent(cs.name)
		if !g.consts[name] {
			g.consts[name] = true
			g.globals[name] = true
			g.citems = append(g.citems, item{
				comment: fmt.Sprintf("%s/%s: const %s %s", p.rel, cs.file, cs.name, t),
				def:     fmt.Sprintf("Definition %s : Z := %s.", name, zlit(r.Num()))})
		}
		return val{code: name, t: t}
	case kFloat:
		return val{t: &ty{k: kUntyped}, c: r} // used at float64: same translation as the literal
	}
	fail("constant %s of type %s is outside the fragment", cs.name, t)
	return val{}
}

func (c *ctx) binary(x *ast.BinaryExpr, hint *ty) val {
	// error == nil / error != nil
	if x.Op == token.EQL || x.Op == token.NEQ {
		var other ast.Expr
		if isNilIdent(unparen(x.Y)) {
			other = x.X
		} else if isNilIdent(unparen(x.X)) {
			other = x.Y
		}
		if other != nil {
			code := c.errIsNil(other)
			if x.Op == token.NEQ {
				code = "(negb " + code + ")"
			}
			return val{code: code, t: tBool}
		}
	}
	switch x.Op {
	case token.LAND, token.LOR:
		a := c.expr(x.X, tBool)
		pmark := len(c.pend)
		b := c.expr(x.Y, tBool)
		if len(c.pend) != pmark {
			if c.scTry > 0 {
				panic(effInShortCircuit{})
			}
			fail("a run-time check (indexing, call that can panic) in the right operand of %s", x.Op)
		}
		if a.t.k != kBool || b.t.k != kBool {
			fail("%s on %s and %s", x.Op, a.t, b.t)
		}
		op := "&&"
		if x.Op == token.LOR {
			op = "||"
		}
		return val{code: "(" + a.code + " " + op + " " + b.code + ")", t: tBool}
	}
	if (x.Op == token.SHL || x.Op == token.SHR) && c.g.ext {
		// extended fragment: shifts of integers (operand types need not agree; no wrap-around)
		a := c.expr(x.X, tInt)
		b := c.expr(x.Y, tInt)
		if a.t.k == kUntyped {
			a = c.constAt(a.c, tInt)
		}
		if b.t.k == kUntyped {
			b = c.constAt(b.c, tInt)
		}
		if a.t.k != kInt || b.t.k != kInt {
			fail("operator %s on %s and %s", x.Op, a.t, b.t)
		}
		f := "Z.shiftl"
		if x.Op == token.SHR {
			f = "Z.shiftr"
		}
		return val{code: "(" + f + " " + a.code + " " + b.code + ")", t: a.t}
	}
	if c.g.intm {
		if v, ok := c.intBitOp(x, hint); ok {
			return v
		}
	}
	if (x.Op == token.REM || x.Op == token.AND) && c.g.loop {
		// loop fragment: % and & on integers (Z.rem truncates like Go; Z.land on non-negative values)
		a := c.expr(x.X, hint)
		b := c.expr(x.Y, hint)
		if a.t.k == kUntyped && b.t.k == kUntyped {
			fail("operator %s on two constants", x.Op)
		}
		if a.t.k == kUntyped {
			a = c.constAt(a.c, b.t)
		} else if b.t.k == kUntyped {
			b = c.constAt(b.c, a.t)
		}
		if a.t.k != kInt || !sameType(a.t, b.t) {
			fail("operator %s on %s and %s", x.Op, a.t, b.t)
		}
		f := "Z.rem"
		if x.Op == token.AND {
			f = "Z.land"
		}
		return val{code: "(" + f + " " + a.code + " " + b.code + ")", t: a.t}
	}
	arith := x.Op == token.ADD || x.Op == token.SUB || x.Op == token.MUL || x.Op == token.QUO
	cmp := x.Op == token.LSS || x.Op == token.LEQ || x.Op == token.GTR || x.Op == token.GEQ || x.Op == token.EQL || x.Op == token.NEQ
	if !arith && !cmp {
		fail("operator %s is outside the fragment", x.Op)
	}
	h := hint
	if cmp {
		h = nil
	}
	a := c.expr(x.X, h)
	b := c.expr(x.Y, h)
	if a.t.k == kUntyped && b.t.k == kUntyped {
		if arith {
			r := new(big.Rat)
			switch x.Op {
			case token.ADD:
				r.Add(a.c, b.c)
			case token.SUB:
				r.Sub(a.c, b.c)
			case token.MUL:
				r.Mul(a.c, b.c)
			case token.QUO:
				if b.c.Sign() == 0 {
					fail("constant division by zero")
				}
				if a.c.IsInt() && b.c.IsInt() && hint != nil && hint.k == kInt {
					r.SetInt(new(big.Int).Quo(a.c.Num(), b.c.Num()))
				} else {
					r.Quo(a.c, b.c)
				}
			}
			return val{t: a.t, c: r}
		}
		fail("comparison of two constants")
	}
	if a.t.k == kUntyped {
		a = c.constAt(a.c, b.t)
	} else if b.t.k == kUntyped {
		b = c.constAt(b.c, a.t)
	}
	if !sameType(a.t, b.t) {
		fail("operator %s on %s and %s", x.Op, a.t, b.t)
	}
	t := a.t
	bin := func(f string) string { return "(" + f + " " + a.code + " " + b.code + ")" }
	switch t.k {
	case kFloat:
		switch x.Op {
		case token.ADD:
			return val{code: bin("f_add ops"), t: t}
		case token.SUB:
			return val{code: bin("f_sub ops"), t: t}
		case token.MUL:
			return val{code: bin("f_mul ops"), t: t}
		case token.QUO:
			return val{code: bin("f_div ops"), t: t}
		case token.LSS:
			return val{code: bin("f_ltb ops"), t: tBool}
		case token.LEQ:
			return val{code: bin("f_leb ops"), t: tBool}
		case token.GTR:
			return val{code: bin("f_gtb ops"), t: tBool}
		case token.GEQ:
			return val{code: bin("f_geb ops"), t: tBool}
		case token.EQL:
			return val{code: bin("f_eqb ops"), t: tBool}
		case token.NEQ:
			return val{code: "(negb " + bin("f_eqb ops") + ")", t: tBool}
		}
	case kInt:
		switch x.Op {
		case token.ADD:
			return val{code: c.wrapInt(bin("Z.add"), t), t: t}
		case token.SUB:
			return val{code: c.wrapInt(bin("Z.sub"), t), t: t}
		case token.MUL:
			return val{code: c.wrapInt(bin("Z.mul"), t), t: t}
		case token.QUO:
			return val{code: c.wrapInt(bin("Z.quot"), t), t: t}
		case token.LSS:
			return val{code: bin("Z.ltb"), t: tBool}
		case token.LEQ:
			return val{code: bin("Z.leb"), t: tBool}
		case token.GTR:
			return val{code: bin("Z.gtb"), t: tBool}
		case token.GEQ:
			return val{code: bin("Z.geb"), t: tBool}
		case token.EQL:
			return val{code: bin("Z.eqb"), t: tBool}
		case token.NEQ:
			return val{code: "(negb " + bin("Z.eqb") + ")", t: tBool}
		}
	case kBool:
		switch x.Op {
		case token.EQL:
			return val{code: bin("Bool.eqb"), t: tBool}
		case token.NEQ:
			return val{code: "(negb " + bin("Bool.eqb") + ")", t: tBool}
		}
	case kStruct:
		switch x.Op {
		case token.EQL:
			return val{code: bin(c.g.structEqb(t)), t: tBool}
		case token.NEQ:
			return val{code: "(negb " + bin(c.g.structEqb(t)) + ")", t: tBool}
		}
	}
	fail("operator %s on %s is outside the fragment", x.Op, t)
	return val{}
}

// Go's == on a struct: field by field, in declaration order
func (g *gen) structEqb(t *ty) string {
	name := t.coq + "_eqb"
	if g.eqbDone[name] {
		return name
	}
	g.eqbDone[name] = true
	g.globals[name] = true
	var parts []string
	for _, f := range t.fields {
		x, y := "("+proj(t, f.name)+" a)", "("+proj(t, f.name)+" b)"
		switch f.t.k {
		case kFloat:
			parts = append(parts, "(f_eqb ops "+x+" "+y+")")
		case kInt:
			parts = append(parts, "(Z.eqb "+x+" "+y+")")
		case kBool:
			parts = append(parts, "(Bool.eqb "+x+" "+y+")")
		case kStruct:
			parts = append(parts, "("+g.structEqb(f.t)+" "+x+" "+y+")")
		default:
			fail("== on struct %s with a field of type %s", t.name, f.t)
		}
	}
	code := parts[0]
	for _, p := range parts[1:] {
		code = "(" + code + " && " + p + ")"
	}
	g.items = append(g.items, item{
		comment: fmt.Sprintf("%s/%s: the operator == on values of type %s (all fields, declaration order)", t.p.rel, t.file, t.name),
		def:     fmt.Sprintf("Definition %s (a b : %s F) : bool :=\n  %s.", name, t.coq, code)})
	return name
}

func (c *ctx) composite(x *ast.CompositeLit) val {
	if x.Type == nil {
		fail("composite literal without a type")
	}
	t := c.g.typeOf(c.p, c.file, x.Type)
	if t.k == kList && c.g.loop {
		if t.name != "" {
			fail("composite literal of type %s (its representation is not translated)", t)
		}
		return c.listLiteral(x, t)
	}
	if t.k == kArray {
		if len(x.Elts) != t.n {
			fail("array literal of %s with %d elements", t, len(x.Elts))
		}
		parts := make([]string, t.n)
		for i, el := range x.Elts {
			if _, ok := el.(*ast.KeyValueExpr); ok {
				fail("keyed array literal")
			}
			parts[i] = c.conv(c.expr(el, t.elems[0]), t.elems[0], "array element").code
		}
		return val{code: c.tuple(parts), t: t}
	}
	if t.k != kStruct {
		fail("composite literal of type %s is outside the fragment", t)
	}
	vals := make([]string, len(t.fields))
	keyed := len(x.Elts) > 0
	for _, el := range x.Elts {
		if _, ok := el.(*ast.KeyValueExpr); !ok {
			keyed = false
		}
	}
	if keyed {
		for _, el := range x.Elts {
			kv := el.(*ast.KeyValueExpr)
			id, ok := kv.Key.(*ast.Ident)
			if !ok {
				fail("composite literal key %s", exprString(kv.Key))
			}
			found := false
			for i, f := range t.fields {
				if f.name == id.Name {
					if vals[i] != "" {
						fail("field %s given twice", id.Name)
					}
					vals[i] = c.conv(c.expr(kv.Value, f.t), f.t, "field "+f.name+" of "+t.name).code
					found = true
				}
			}
			if !found {
				fail("type %s has no field %s", t.name, id.Name)
			}
		}
	} else if len(x.Elts) > 0 {
		if len(x.Elts) != len(t.fields) {
			fail("composite literal of %s with %d of %d fields", t.name, len(x.Elts), len(t.fields))
		}
		for i, el := range x.Elts {
			f := t.fields[i]
			vals[i] = c.conv(c.expr(el, f.t), f.t, "field "+f.name+" of "+t.name).code
		}
	}
	s := "(Mk_" + t.coq
	for i, f := range t.fields {
		if vals[i] == "" {
			vals[i] = c.zero(f.t)
		}
		s += " " + vals[i]
	}
	return val{code: s + ")", t: t}
}

var mathFuncs = map[string]struct {
	op    string
	arity int
	res   *ty
}{
	"Min": {"f_min", 2, tFloat}, "Max": {"f_max", 2, tFloat}, "Abs": {"f_abs", 1, tFloat},
	"Sqrt": {"f_sqrt", 1, tFloat}, "Hypot": {"f_hypot", 2, tFloat}, "IsNaN": {"f_is_nan", 1, tBool},
}

var mathFuncsExt = map[string]struct {
	op    string
	arity int
}{
	"Sin": {"t_sin", 1}, "Cos": {"t_cos", 1}, "Tan": {"t_tan", 1}, "Asin": {"t_asin", 1}, "Acos": {"t_acos", 1},
	"Atan": {"t_atan", 1}, "Atan2": {"t_atan2", 2}, "Exp": {"t_exp", 1}, "Log": {"t_log", 1}, "Pow": {"t_pow", 2},
	"Copysign": {"t_copysign", 2},
}

func (c *ctx) call(x *ast.CallExpr, hint *ty) val {
	if x.Ellipsis != token.NoPos {
		if id, ok := unparen(x.Fun).(*ast.Ident); ok && c.g.intm && id.Name == "append" && c.lookup("append") == nil && len(x.Args) == 2 {
			return c.appendSpread(x.Args[0], x.Args[1])
		}
		fail("call with ... is outside the fragment")
	}
	switch f := unparen(x.Fun).(type) {
	case *ast.Ident:
		if l := c.lookup(f.Name); l != nil {
			if c.g.loop && (l.t.k == kFunc || l.t.k == kClosure) {
				return c.callLocal(l, f.Name, x.Args)
			}
			fail("call of the function value %s", f.Name)
		}
		if c.g.loop {
			if v, ok := c.builtinCall(f.Name, x.Args); ok {
				return v
			}
		}
		// conversion
		if _, isFunc := c.p.funcs[f.Name]; !isFunc {
			if f.Name == "float64" || c.p.types[f.Name] != nil || f.Name == "int" || (c.g.intm && intKinds[f.Name]) {
				t := c.g.typeOf(c.p, c.file, f)
				if len(x.Args) != 1 {
					fail("conversion with %d arguments", len(x.Args))
				}
				v := c.expr(x.Args[0], t)
				switch {
				case v.t.k == kUntyped && (t.k == kFloat || t.k == kInt):
					return c.constAt(v.c, t)
				case v.t.k == kInt && t.k == kInt && c.g.intm:
					// integer fragment: a conversion between integer types wraps into the range of the target
					return val{code: c.wrapInt(v.code, t), t: t}
				case v.t.k == t.k && (t.k == kFloat || t.k == kInt):
					// float64(x) of a float64 x: the identity on values (it only forbids a fused multiply-add)
					return val{code: v.code, t: t}
				case v.t.k == kInt && t.k == kFloat:
					return val{code: "(f_of_Z ops " + v.code + ")", t: t}
				case v.t.k == kFloat && t.k == kInt && c.g.loop:
					return val{code: "(f_to_int " + v.code + ")", t: t}
				}
				fail("conversion %s(%s) is outside the fragment", f.Name, v.t)
			}
			fail("call of %s: no such function in package %s", f.Name, c.p.name)
		}
		return c.callFunc(c.p, f.Name, nil, x.Args)
	case *ast.SelectorExpr:
		if id, ok := f.X.(*ast.Ident); ok && c.lookup(id.Name) == nil && c.p.consts[id.Name] == nil && c.p.vars[id.Name] == false {
			path := importPath(c.file, id.Name)
			if path == "math" {
				if f.Sel.Name == "IsInf" {
					if len(x.Args) == 2 {
						if s := c.expr(x.Args[1], tInt); s.t.k == kUntyped && s.c.Sign() == 0 {
							a := c.conv(c.expr(x.Args[0], tFloat), tFloat, "argument of math.IsInf")
							return val{code: "(f_is_inf ops " + a.code + ")", t: tBool}
						}
					}
					fail("math.IsInf with a sign other than the constant 0")
				}
				if me, ok := mathFuncsExt[f.Sel.Name]; ok && c.g.ext {
					if len(x.Args) != me.arity {
						fail("math.%s with %d arguments", f.Sel.Name, len(x.Args))
					}
					s := "(" + me.op + " T"
					for _, a := range x.Args {
						s += " " + c.conv(c.expr(a, tFloat), tFloat, "argument of math."+f.Sel.Name).code
					}
					return val{code: s + ")", t: tFloat}
				}
				if c.g.loop {
					if v, ok := c.mathLoop(f.Sel.Name, x.Args); ok {
						return v
					}
				}
				m, ok := mathFuncs[f.Sel.Name]
				if !ok {
					fail("math.%s is outside the fragment", f.Sel.Name)
				}
				if len(x.Args) != m.arity {
					fail("math.%s with %d arguments", f.Sel.Name, len(x.Args))
				}
				s := "(" + m.op + " ops"
				for _, a := range x.Args {
					s += " " + c.conv(c.expr(a, tFloat), tFloat, "argument of math."+f.Sel.Name).code
				}
				return val{code: s + ")", t: m.res}
			}
			if q := c.g.importedPkg(c.file, id.Name); q != nil {
				if _, ok := q.funcs[f.Sel.Name]; ok {
					return c.callFunc(q, f.Sel.Name, nil, x.Args)
				}
			}
			if path != "" {
				fail("call of %s.%s is outside the fragment", id.Name, f.Sel.Name)
			}
		}
		// method call: the static type of the receiver selects the method
		recvT := c.staticType(f.X)
		if c.g.loop && recvT != nil && recvT.k == kList && recvT.name == "Sequence" {
			return c.sequenceMethod(f.X, f.Sel.Name, x.Args)
		}
		if recvT == nil || recvT.name == "" || recvT.p == nil {
			fail("method call %s on a receiver whose type the generator cannot determine", exprString(x.Fun))
		}
		key := recvT.name + "." + f.Sel.Name
		if _, ok := recvT.p.funcs[key]; !ok {
			fail("no method %s in package %s", key, recvT.p.name)
		}
		return c.callFunc(recvT.p, key, f.X, x.Args)
	}
	fail("call of %s is outside the fragment", exprString(x.Fun))
	return val{}
}

// the static type of a receiver expression, also when that type is outside the fragment
func (c *ctx) staticType(e ast.Expr) *ty {
	e = unparen(e)
	if id, ok := e.(*ast.Ident); ok {
		if l := c.lookup(id.Name); l != nil {
			return l.t
		}
		if cs := c.p.consts[id.Name]; cs != nil && cs.typ != nil {
			return c.g.typeOf(c.p, c.p.files[cs.file], cs.typ)
		}
		return nil
	}
	// only the type is wanted: the run-time checks of e are registered when e is translated as the receiver
	pmark, tmp := len(c.pend), c.tmp
	t := c.expr(e, nil).t
	if len(c.pend) > pmark {
		c.pend, c.tmp = c.pend[:pmark], tmp
	}
	return t
}

func (c *ctx) callFunc(q *pkg, key string, recv ast.Expr, args []ast.Expr) val {
	fi := c.g.translate(q, key, false)
	if fi.state == 1 {
		fail("recursive call of %s", key)
	}
	if fi.state == 3 {
		fail("calls %s.%s, which is not translated: %s", q.name, key, fi.reason)
	}
	if fi.partial && !c.g.loop {
		fail("calls %s.%s, which is only partially translated", q.name, key)
	}
	all := args
	if recv != nil {
		all = append([]ast.Expr{recv}, args...)
	}
	if len(all) != len(fi.params) && !(fi.variadic && len(all) >= len(fi.params)-1) {
		fail("call of %s with %d arguments, want %d", key, len(all), len(fi.params))
	}
	s := "(" + fi.coq
	for i, a := range all {
		if i >= len(fi.params) || fi.dropped[i] {
			continue
		}
		pt := fi.params[i]
		if pt.k == kError {
			s += " " + c.errIsNil(a)
			continue
		}
		if pt.k == kFunc {
			s += " " + c.funcArg(a, pt)
			continue
		}
		s += " " + c.conv(c.expr(a, pt), pt, fmt.Sprintf("argument %d of %s", i, key)).code
	}
	if len(fi.outs) > 0 {
		return c.callWithOuts(fi, s+")", all, key)
	}
	if fi.partial || fi.eff {
		return val{code: c.bindPartial(s + ")"), t: fi.result}
	}
	return val{code: s + ")", t: fi.result}
}

// the boolean "this error expression is nil"
func (c *ctx) errIsNil(e ast.Expr) string {
	e = unparen(e)
	switch x := e.(type) {
	case *ast.Ident:
		if x.Name == "nil" && c.lookup("nil") == nil {
			return "true"
		}
		if l := c.lookup(x.Name); l != nil && l.t.k == kError {
			return l.coq
		}
		if l := c.lookup(x.Name); l != nil && l.t.k == kFunc {
			return "(is_nil_func " + l.coq + ")"
		}
	case *ast.CompositeLit:
		// a struct value stored in the interface: never nil
		if x.Type != nil {
			t := c.g.typeOf(c.p, c.file, x.Type)
			if t.p != nil && t.p.types[t.name] != nil {
				if _, ok := t.p.types[t.name].Type.(*ast.StructType); ok {
					return "false"
				}
			}
		}
	case *ast.UnaryExpr:
		if cl, ok := x.X.(*ast.CompositeLit); ok && x.Op == token.AND && cl.Type != nil {
			return "false"
		}
	case *ast.CallExpr:
		if sel, ok := unparen(x.Fun).(*ast.SelectorExpr); ok {
			if id, ok := sel.X.(*ast.Ident); ok && c.lookup(id.Name) == nil {
				path := importPath(c.file, id.Name)
				if (path == "fmt" && sel.Sel.Name == "Errorf") || (path == "errors" && sel.Sel.Name == "New") {
					return "false"
				}
			}
		}
		v := c.call(x, nil)
		if v.t.k == kError {
			return v.code
		}
	}
	if c.g.intm {
		if v := c.expr(e, nil); v.t.k == kPtr {
			return "(is_nil_func " + v.code + ")"
		}
	}
	fail("error expression %s is outside the fragment", exprString(e))
	return ""
}

// ---------------------------------------------------------------------------------------------
// statements.  k produces the code of what follows the list (the continuation)

func ind(n int) string { return strings.Repeat("  ", n) }

func (c *ctx) tuple(parts []string) string {
	if len(parts) == 1 {
		return parts[0]
	}
	return "(" + strings.Join(parts, ", ") + ")"
}

func (c *ctx) ret(code string) string {
	if c.inLoop() {
		return "(SReturn " + code + ")"
	}
	if c.isPartial() {
		return "(Known " + code + ")"
	}
	return code
}

func (c *ctx) stmts(list []ast.Stmt, k func(n int) string, n int) (out string) {
	if len(list) == 0 {
		return k(n)
	}
	if c.fi.partial && c.noCatch == 0 {
		depth := len(c.scopes)
		pdepth, mdepth, ldepth := len(c.pend), len(c.modes), len(c.loops)
		defer func() {
			if r := recover(); r != nil {
				e, ok := r.(trErr)
				if !ok {
					panic(r)
				}
				c.scopes = c.scopes[:depth]
				c.pend, c.modes, c.loops = c.pend[:pdepth], c.modes[:mdepth], c.loops[:ldepth]
				out = ind(n) + c.failCode(coqString(string(e)))
			}
		}()
	}
	rest := func(m int) string { return c.stmts(list[1:], k, m) }
	mark := len(c.pend) // loop fragment: the run-time checks of this statement's expressions are wrapped around it
	switch s := list[0].(type) {
	case *ast.EmptyStmt:
		return rest(n)
	case *ast.ReturnStmt:
		v := c.returnValue(s)
		return c.wrapPend(mark, ind(n)+c.ret(v), n)
	case *ast.BlockStmt:
		return c.block(s.List, rest, n)
	case *ast.ForStmt:
		if c.g.intm && s.Init == nil && s.Post == nil && s.Cond != nil {
			return c.whileStmt(s, rest, n)
		}
		if c.g.loop {
			return c.forStmt(s, rest, n)
		}
	case *ast.RangeStmt:
		if c.g.loop {
			return c.rangeStmt(s, rest, n)
		}
	case *ast.IncDecStmt:
		if c.g.loop {
			op := token.ADD_ASSIGN
			if s.Tok == token.DEC {
				op = token.SUB_ASSIGN
			}
			as := &ast.AssignStmt{Lhs: []ast.Expr{s.X}, Tok: op, Rhs: []ast.Expr{&ast.BasicLit{Kind: token.INT, Value: "1"}}}
			return c.stmts(append([]ast.Stmt{as}, list[1:]...), k, n)
		}
	case *ast.BranchStmt:
		if c.g.loop {
			return c.branchStmt(s, n)
		}
	case *ast.ExprStmt:
		if c.g.loop {
			return c.exprStmt(s, n)
		}
	case *ast.DeclStmt:
		gd, ok := s.Decl.(*ast.GenDecl)
		if !ok || gd.Tok != token.VAR {
			fail("declaration statement other than var")
		}
		var b strings.Builder
		for _, sp := range gd.Specs {
			vs := sp.(*ast.ValueSpec)
			var t *ty
			if vs.Type != nil {
				t = c.g.typeOf(c.p, c.file, vs.Type)
			}
			if len(vs.Values) != 0 && len(vs.Values) != len(vs.Names) {
				fail("var with %d names and %d values", len(vs.Names), len(vs.Values))
			}
			var codes []string
			var types []*ty
			for i := range vs.Names {
				if len(vs.Values) == 0 {
					codes = append(codes, c.zero(t))
					types = append(types, t)
					continue
				}
				v := c.expr(vs.Values[i], t)
				if t != nil {
					v = c.conv(v, t, "var "+vs.Names[i].Name)
				} else if v.t.k == kUntyped {
					fail("var %s initialised with an untyped constant", vs.Names[i].Name)
				}
				codes = append(codes, v.code)
				types = append(types, v.t)
			}
			for i, id := range vs.Names {
				fmt.Fprintf(&b, "%slet %s := %s in\n", ind(n), c.declare(id.Name, types[i]), codes[i])
			}
		}
		return c.wrapPend(mark, b.String()+rest(n), n)
	case *ast.AssignStmt:
		if c.g.loop {
			if code, ok := c.specialAssign(s, n); ok {
				return c.wrapPend(mark, code+rest(n), n)
			}
		}
		code := c.assign(s, n)
		return c.wrapPend(mark, code+rest(n), n)
	case *ast.IfStmt:
		code := c.ifStmt(s, rest, n)
		return c.wrapPend(mark, code, n)
	case *ast.SwitchStmt:
		code := c.switchStmt(s, rest, n)
		return c.wrapPend(mark, code, n)
	}
	fail("statement %s is outside the fragment", stmtName(list[0]))
	return ""
}

func stmtName(s ast.Stmt) string {
	switch x := s.(type) {
	case *ast.ForStmt:
		return "for"
	case *ast.RangeStmt:
		return "for range"
	case *ast.ExprStmt:
		return "expression statement " + exprString(x.X)
	case *ast.IncDecStmt:
		return "++/--"
	case *ast.GoStmt:
		return "go"
	case *ast.DeferStmt:
		return "defer"
	case *ast.TypeSwitchStmt:
		return "type switch"
	case *ast.BranchStmt:
		return x.Tok.String()
	}
	return fmt.Sprintf("%T", s)
}

// a nested block: its declarations end with it; the continuation runs in the outer scope
func (c *ctx) block(list []ast.Stmt, k func(n int) string, n int) string {
	depth := len(c.scopes)
	c.push()
	out := c.stmts(list, func(m int) string {
		saved := c.scopes
		c.scopes = c.scopes[:depth]
		r := k(m)
		c.scopes = saved
		return r
	}, n)
	c.scopes = c.scopes[:depth]
	return out
}

func (c *ctx) returnValue(s *ast.ReturnStmt) string {
	rt := c.resultType()
	var want []*ty
	if rt.k == kTuple {
		want = rt.elems
	} else {
		want = []*ty{rt}
	}
	if len(s.Results) == 0 && c.voidRecv != "" && c.closure == 0 {
		l := c.lookup(c.voidRecv)
		if l == nil {
			fail("receiver %s is not in scope", c.voidRecv)
		}
		return l.coq
	}
	if len(s.Results) == 0 {
		if len(c.named) != len(want) || c.closure > 0 {
			fail("bare return without named results")
		}
		var parts []string
		for _, nm := range c.named {
			l := c.lookup(nm)
			if l == nil {
				fail("named result %s is not in scope", nm)
			}
			parts = append(parts, l.coq)
		}
		return c.tuple(append(parts, c.outValues()...))
	}
	if len(s.Results) == 1 && len(want) > 1 {
		if c.closure == 0 && len(c.fi.outs) > 0 {
			fail("return of a call with several results in a function that writes through an argument")
		}
		v := c.expr(s.Results[0], nil)
		if !sameType(v.t, rt) {
			fail("return of %s, want %s", v.t, rt)
		}
		return v.code
	}
	if len(s.Results) != len(want) {
		fail("return with %d values, want %d", len(s.Results), len(want))
	}
	var parts []string
	for i, r := range s.Results {
		if want[i].k == kError {
			parts = append(parts, c.errIsNil(r))
			continue
		}
		parts = append(parts, c.conv(c.expr(r, want[i]), want[i], "returned value").code)
	}
	return c.tuple(append(parts, c.outValues()...))
}

// the chain of field names of an assignable expression rooted at a local variable
func (c *ctx) lvalue(e ast.Expr) (root string, path []string) {
	switch x := unparen(e).(type) {
	case *ast.Ident:
		return x.Name, nil
	case *ast.SelectorExpr:
		r, p := c.lvalue(x.X)
		return r, append(p, x.Sel.Name)
	case *ast.IndexExpr:
		if c.g.ext {
			// "#<expr index>": resolved against the array type in update / lhsType
			r, p := c.lvalue(x.X)
			c.indexExprs = append(c.indexExprs, x.Index)
			return r, append(p, fmt.Sprintf("#%d", len(c.indexExprs)-1))
		}
	}
	fail("assignment to %s is outside the fragment", exprString(e))
	return "", nil
}

// the value `cur` (of type t) with the field at `path` replaced by v
func (c *ctx) update(cur string, t *ty, path []string, v string, vt *ty, what string) string {
	if len(path) == 0 {
		if !sameType(t, vt) {
			fail("assignment to %s: have %s, want %s", what, vt, t)
		}
		return v
	}
	if strings.HasPrefix(path[0], "#") {
		if t.k != kArray {
			fail("index expression on %s is outside the fragment", t)
		}
		k, _ := strconv.Atoi(path[0][1:])
		idx := c.constIndex(c.indexExprs[k], t)
		parts := make([]string, t.n)
		for i := range parts {
			sub := tupleElem(cur, t.n, i)
			if i == idx {
				parts[i] = c.update(sub, t.elems[0], path[1:], v, vt, what)
			} else {
				parts[i] = sub
			}
		}
		return c.tuple(parts)
	}
	f, ok := c.fieldOf(t, path[0])
	if !ok {
		fail("%s has no field %s in the fragment", t, path[0])
	}
	s := "(Mk_" + t.coq
	for _, g := range t.fields {
		sub := "(" + proj(t, g.name) + " " + cur + ")"
		if g.name == f.name {
			s += " " + c.update(sub, g.t, path[1:], v, vt, what)
		} else {
			s += " " + sub
		}
	}
	return s + ")"
}

func (c *ctx) assign(s *ast.AssignStmt, n int) string {
	var b strings.Builder
	switch s.Tok {
	case token.DEFINE, token.ASSIGN:
	case token.REM_ASSIGN, token.AND_ASSIGN, token.OR_ASSIGN, token.XOR_ASSIGN, token.SHL_ASSIGN, token.SHR_ASSIGN, token.AND_NOT_ASSIGN:
		if !c.g.intm {
			fail("assignment operator %s is outside the fragment", s.Tok)
		}
		fallthrough
	case token.ADD_ASSIGN, token.SUB_ASSIGN, token.MUL_ASSIGN, token.QUO_ASSIGN:
		if len(s.Lhs) != 1 || len(s.Rhs) != 1 {
			fail("operator assignment with several operands")
		}
		op := opOfAssign[s.Tok]
		return c.assign(&ast.AssignStmt{Lhs: s.Lhs, Tok: token.ASSIGN,
			Rhs: []ast.Expr{&ast.BinaryExpr{X: s.Lhs[0], Op: op, Y: &ast.ParenExpr{X: s.Rhs[0]}}}}, n)
	default:
		fail("assignment operator %s is outside the fragment", s.Tok)
	}
	// right-hand sides first (all of them are evaluated before any assignment takes place)
	var vals []val
	if len(s.Rhs) == len(s.Lhs) {
		for i, r := range s.Rhs {
			var hint *ty
			if s.Tok == token.ASSIGN {
				hint = c.lhsType(s.Lhs[i])
			}
			var v val
			if hint != nil && hint.k == kError {
				v = val{code: c.errIsNil(r), t: tError}
			} else {
				v = c.expr(r, hint)
				if v.t.k == kUntyped {
					if hint == nil && c.g.intm && v.c.IsInt() {
						hint = &ty{k: kInt, ik: "int"} // integer fragment: the default type of an integer constant
					}
					if hint == nil {
						fail("%s := untyped constant (the default type is not tracked)", exprString(s.Lhs[i]))
					}
					v = c.constAt(v.c, hint)
				}
			}
			vals = append(vals, v)
		}
	} else if len(s.Rhs) == 1 {
		v := c.expr(s.Rhs[0], nil)
		if v.t.k != kTuple || len(v.t.elems) != len(s.Lhs) {
			fail("assignment of %s to %d variables", v.t, len(s.Lhs))
		}
		// direct binding when every target is a plain (new or existing) variable
		if allIdents(s.Lhs) {
			var names []string
			for i, l := range s.Lhs {
				names = append(names, c.bindTarget(l.(*ast.Ident), v.t.elems[i], s.Tok))
			}
			fmt.Fprintf(&b, "%slet '%s := %s in\n", ind(n), c.tuple(names), v.code)
			return b.String()
		}
		// otherwise the components are bound to temporaries
		var tmps []string
		for _, et := range v.t.elems {
			c.tmp++
			tn := c.fresh(fmt.Sprintf("r%d", c.tmp))
			tmps = append(tmps, tn)
			vals = append(vals, val{code: tn, t: et})
		}
		fmt.Fprintf(&b, "%slet '%s := %s in\n", ind(n), c.tuple(tmps), v.code)
	} else {
		fail("assignment with %d targets and %d values", len(s.Lhs), len(s.Rhs))
	}
	if allIdents(s.Lhs) {
		names, codes := make([]string, len(s.Lhs)), make([]string, len(s.Lhs))
		for i := range s.Lhs {
			codes[i] = vals[i].code
		}
		// the names are bound after all right-hand sides were translated (parallel assignment)
		for i, l := range s.Lhs {
			names[i] = c.bindTarget(l.(*ast.Ident), vals[i].t, s.Tok)
		}
		if len(names) == 1 {
			fmt.Fprintf(&b, "%slet %s := %s in\n", ind(n), names[0], codes[0])
		} else {
			fmt.Fprintf(&b, "%slet '%s := %s in\n", ind(n), c.tuple(names), c.tuple(codes))
		}
		return b.String()
	}
	if s.Tok == token.DEFINE {
		fail(":= with a target that is not a variable")
	}
	// targets with field paths: the values go through temporaries, then the fields are updated left to right
	if len(s.Rhs) == len(s.Lhs) {
		var tmps, codes []string
		for i := range vals {
			c.tmp++
			tn := c.fresh(fmt.Sprintf("r%d", c.tmp))
			tmps = append(tmps, tn)
			codes = append(codes, vals[i].code)
			vals[i].code = tn
		}
		if len(tmps) == 1 {
			fmt.Fprintf(&b, "%slet %s := %s in\n", ind(n), tmps[0], codes[0])
		} else {
			fmt.Fprintf(&b, "%slet '%s := %s in\n", ind(n), c.tuple(tmps), c.tuple(codes))
		}
	}
	for i, l := range s.Lhs {
		root, path := c.lvalue(l)
		if root == "_" && len(path) == 0 {
			continue
		}
		lv := c.lookup(root)
		if lv == nil {
			fail("assignment to %s, which is not a local variable", root)
		}
		c.checkNotCaptured(lv, root)
		c.noteWrite(lv)
		fmt.Fprintf(&b, "%slet %s := %s in\n", ind(n), lv.coq, c.update(lv.coq, lv.t, path, vals[i].code, vals[i].t, exprString(l)))
	}
	return b.String()
}

var opOfAssign = map[token.Token]token.Token{token.ADD_ASSIGN: token.ADD, token.SUB_ASSIGN: token.SUB,
	token.MUL_ASSIGN: token.MUL, token.QUO_ASSIGN: token.QUO, token.REM_ASSIGN: token.REM, token.AND_ASSIGN: token.AND,
	token.OR_ASSIGN: token.OR, token.XOR_ASSIGN: token.XOR, token.SHL_ASSIGN: token.SHL, token.SHR_ASSIGN: token.SHR,
	token.AND_NOT_ASSIGN: token.AND_NOT}

func allIdents(l []ast.Expr) bool {
	for _, e := range l {
		if _, ok := e.(*ast.Ident); !ok {
			return false
		}
	}
	return true
}

func (c *ctx) lhsType(e ast.Expr) *ty {
	root, path := c.lvalue(e)
	if root == "_" {
		return nil
	}
	l := c.lookup(root)
	if l == nil {
		fail("assignment to %s, which is not a local variable", root)
	}
	t := l.t
	for _, f := range path {
		if strings.HasPrefix(f, "#") {
			if t.k != kArray {
				fail("index expression on %s is outside the fragment", t)
			}
			t = t.elems[0]
			continue
		}
		fd, ok := c.fieldOf(t, f)
		if !ok {
			fail("%s has no field %s in the fragment", t, f)
		}
		t = fd.t
	}
	return t
}

// the Gallina name bound by an assignment to the variable id: a new name for a declaration, the
// same name (shadowing the previous binding) for an assignment
func (c *ctx) bindTarget(id *ast.Ident, t *ty, tok token.Token) string {
	if id.Name == "_" {
		return "_"
	}
	if tok == token.DEFINE {
		if l, ok := c.scopes[len(c.scopes)-1][id.Name]; ok { // redeclared in the same scope: an assignment
			if !sameType(l.t, t) {
				fail("assignment to %s: have %s, want %s", id.Name, t, l.t)
			}
			return l.coq
		}
		return c.declare(id.Name, t)
	}
	l := c.lookup(id.Name)
	if l == nil {
		fail("assignment to %s, which is not a local variable", id.Name)
	}
	if !sameType(l.t, t) {
		fail("assignment to %s: have %s, want %s", id.Name, t, l.t)
	}
	c.checkNotCaptured(l, id.Name)
	return l.coq
}

func (c *ctx) cond(e ast.Expr) string {
	v := c.expr(e, tBool)
	if v.t.k != kBool {
		fail("condition of type %s", v.t)
	}
	return v.code
}

// only assignments to existing variables (no declarations, no control flow)?  Then the statement
// is translated as  let '(v1, .., vn) := if c then .. else .. in  (the variables it assigns)
func assignOnly(list []ast.Stmt, roots *[]string, c *ctx) bool {
	for _, s := range list {
		if id, isInc := s.(*ast.IncDecStmt); isInc && c.g.loop {
			s = &ast.AssignStmt{Lhs: []ast.Expr{id.X}, Tok: token.ADD_ASSIGN, Rhs: []ast.Expr{id.X}}
		}
		a, ok := s.(*ast.AssignStmt)
		if !ok || a.Tok == token.DEFINE {
			return false
		}
		for _, l := range a.Lhs {
			e := unparen(l)
			for {
				sel, ok := e.(*ast.SelectorExpr)
				if !ok {
					break
				}
				e = unparen(sel.X)
			}
			id, ok := e.(*ast.Ident)
			if !ok {
				return false
			}
			if id.Name == "_" {
				continue
			}
			if c.lookup(id.Name) == nil {
				return false
			}
			seen := false
			for _, r := range *roots {
				seen = seen || r == id.Name
			}
			if !seen {
				*roots = append(*roots, id.Name)
			}
		}
	}
	return true
}

func (c *ctx) ifStmt(s *ast.IfStmt, rest func(n int) string, n int) string {
	if s.Init != nil {
		// if init; cond {..}  ==  { init; if cond {..} }
		return c.block([]ast.Stmt{s.Init, &ast.IfStmt{If: s.If, Cond: s.Cond, Body: s.Body, Else: s.Else}}, rest, n)
	}
	if be, isBin := unparen(s.Cond).(*ast.BinaryExpr); isBin && c.g.intm && (be.Op == token.LOR || be.Op == token.LAND) {
		if rw := c.splitShortCircuit(s, be); rw != nil {
			return c.ifStmt(rw, rest, n)
		}
	}
	cond := c.cond(s.Cond)
	var roots []string
	var elseList []ast.Stmt
	simple := assignOnly(s.Body.List, &roots, c)
	if simple && s.Else != nil {
		eb, ok := s.Else.(*ast.BlockStmt)
		simple = ok && assignOnly(eb.List, &roots, c)
		if ok {
			elseList = eb.List
		}
	}
	if simple && len(roots) > 0 {
		if code, ok := c.simpleIf(s, elseList, roots, cond, n); ok {
			return code + rest(n)
		}
	}
	thenCode := c.block(s.Body.List, rest, n+1)
	var elseCode string
	switch e := s.Else.(type) {
	case nil:
		elseCode = rest(n + 1)
	case *ast.BlockStmt:
		elseCode = c.block(e.List, rest, n+1)
	case *ast.IfStmt:
		elseCode = c.block([]ast.Stmt{e}, rest, n+1)
	default:
		fail("else branch %T", s.Else)
	}
	return fmt.Sprintf("%sif %s then\n%s\n%selse\n%s", ind(n), cond, thenCode, ind(n), elseCode)
}

// if cond { assignments } else { assignments }  as  let '(v1, .., vn) := if cond then .. else .. in
// (loop fragment: when a branch needs a run-time check the attempt is abandoned, ok = false)
func (c *ctx) simpleIf(s *ast.IfStmt, elseList []ast.Stmt, roots []string, cond string, n int) (code string, ok bool) {
	var names []string
	for _, r := range roots {
		names = append(names, c.lookup(r).coq)
	}
	end := func(m int) string { return ind(m) + c.tuple(names) }
	depth, pdepth, noCatch, noEff := len(c.scopes), len(c.pend), c.noCatch, c.noEff
	if c.g.loop {
		defer func() {
			if r := recover(); r != nil {
				if _, is := r.(effInSimple); !is {
					panic(r)
				}
				c.scopes, c.pend, c.noCatch, c.noEff = c.scopes[:depth], c.pend[:pdepth], noCatch, noEff
				code, ok = "", false
			}
		}()
	}
	c.noCatch++
	c.noEff++
	thenCode := c.block(s.Body.List, end, n+2)
	elseCode := c.block(elseList, end, n+2)
	c.noEff--
	c.noCatch--
	pat := c.tuple(names)
	if len(names) > 1 {
		pat = "'" + pat
	}
	return fmt.Sprintf("%slet %s :=\n%sif %s then\n%s\n%selse\n%s in\n", ind(n), pat, ind(n+1), cond, thenCode, ind(n+1), elseCode), true
}

func (c *ctx) switchStmt(s *ast.SwitchStmt, rest func(n int) string, n int) string {
	if s.Init != nil {
		return c.block([]ast.Stmt{s.Init, &ast.SwitchStmt{Switch: s.Switch, Tag: s.Tag, Body: s.Body}}, rest, n)
	}
	// rewritten into the if / else-if chain it abbreviates (cases in order, default last)
	var chain, last *ast.IfStmt
	var deflt []ast.Stmt
	hasDefault := false
	for _, cl := range s.Body.List {
		cc := cl.(*ast.CaseClause)
		for _, st := range cc.Body {
			if br, ok := st.(*ast.BranchStmt); ok {
				fail("%s inside a switch is outside the fragment", br.Tok)
			}
		}
		if cc.List == nil {
			hasDefault = true
			deflt = cc.Body
			continue
		}
		var cond ast.Expr
		for _, e := range cc.List {
			var one ast.Expr = e
			if s.Tag != nil {
				one = &ast.BinaryExpr{X: s.Tag, Op: token.EQL, Y: e}
			}
			if cond == nil {
				cond = one
			} else {
				cond = &ast.BinaryExpr{X: cond, Op: token.LOR, Y: one}
			}
		}
		is := &ast.IfStmt{Cond: cond, Body: &ast.BlockStmt{List: cc.Body}}
		if chain == nil {
			chain = is
		} else {
			last.Else = is
		}
		last = is
	}
	if chain == nil {
		return c.block(deflt, rest, n)
	}
	if hasDefault {
		last.Else = &ast.BlockStmt{List: deflt}
	}
	return c.ifStmt(chain, rest, n)
}

// text placed inside a Coq comment (Coq lexes strings and nested comments inside comments)
func cmt(s string) string {
	s = strings.ReplaceAll(s, "\"", "'")
	s = strings.ReplaceAll(s, "(*", "( *")
	return strings.ReplaceAll(s, "*)", "* )")
}

var forbiddenWords = strings.NewReplacer("admit", "adm.it", "Admitted", "Adm.itted", "Axiom", "Ax.iom",
	"Parameter", "Param.eter", "Conjecture", "Conj.ecture", "bypass_check", "bypass.check")

func coqString(s string) string {
	s = forbiddenWords.Replace(s)
	return "\"" + strings.ReplaceAll(s, "\"", "\"\"") + "\"%string"
}

// ---------------------------------------------------------------------------------------------
// functions

func (g *gen) translate(p *pkg, key string, partial bool) *funcInfo {
	id := p.rel + ":" + key
	if fi, ok := g.funcs[id]; ok {
		return fi
	}
	coq := p.name + "_" + coqIdent(strings.ReplaceAll(key, ".", "_"))
	fi := &funcInfo{p: p, key: key, coq: coq, state: 1, partial: partial}
	g.funcs[id] = fi
	g.globals[coq] = true
	fd := p.funcs[key]
	where := p.rel
	if fd != nil {
		where = p.rel + "/" + p.funcFile[key]
	}
	def, err := g.translateBody(p, fd, fi)
	for tries := 0; tries < 16 && (err == needEffectMarker || strings.HasPrefix(err, needOutMarker)); tries++ {
		if err == needEffectMarker {
			// loop fragment: the body contains a run-time check: translated again, with the result type partial T
			fi.eff = true
		} else {
			// integer fragment: the body writes through an argument: translated again, returning its final value too
			idx, _ := strconv.Atoi(strings.TrimPrefix(err, needOutMarker))
			fi.outs = append(fi.outs, idx)
			sort.Ints(fi.outs)
		}
		fi.params, fi.dropped, fi.variadic, fi.outTypes, fi.pnames = nil, nil, false, nil, nil
		def, err = g.translateBody(p, fd, fi)
	}
	if err != "" {
		fi.state, fi.reason = 3, err
		warn("%s:%s not translated: %s", where, key, err)
		g.items = append(g.items, item{
			comment: fmt.Sprintf("%s:%s  NOT TRANSLATED: %s", where, key, err),
			def:     fmt.Sprintf("Definition %s := untranslatable %s.", coq, coqString(err))})
		g.badFuncs = append(g.badFuncs, where+":"+key)
		return fi
	}
	fi.state = 2
	note := ""
	if partial {
		note = "  (partial: paths outside the fragment yield Unknown)"
	}
	if fi.eff {
		note += "  (Unknown: the Go code panics at run time)"
	}
	g.items = append(g.items, item{comment: fmt.Sprintf("%s:%s%s", where, key, note), def: def})
	g.okFuncs = append(g.okFuncs, where+":"+key)
	return fi
}

func (g *gen) translateBody(p *pkg, fd *ast.FuncDecl, fi *funcInfo) (def string, err string) {
	defer func() {
		if r := recover(); r != nil {
			if _, is := r.(needEffect); is {
				err = needEffectMarker
				return
			}
			if no, is := r.(needOut); is {
				err = needOutMarker + strconv.Itoa(int(no))
				return
			}
			e, ok := r.(trErr)
			if !ok {
				panic(r)
			}
			err = string(e)
		}
	}()
	if fd == nil {
		fail("function not found in package %s", p.rel)
	}
	if fd.Body == nil {
		fail("function without a body")
	}
	if fd.Type.TypeParams != nil {
		fail("generic function")
	}
	c := &ctx{g: g, p: p, file: p.files[p.funcFile[fi.key]], fi: fi, used: map[string]bool{}}
	c.push()
	var binders []string
	var recvT *ty // extended fragment: the struct type of a pointer receiver
	recvName := ""
	addParam := func(name string, t *ty, ref bool) {
		fi.params = append(fi.params, t)
		fi.pnames = append(fi.pnames, name)
		defer func() {
			// integer fragment: writes through this argument are visible to the caller
			if l := c.scopes[0][name]; ref && g.intm && l != nil && l.coq != "" {
				if c.refLocals == nil {
					c.refLocals = map[*local]int{}
				}
				c.refLocals[l] = len(fi.params) - 1
			}
		}()
		if t.k == kOpaque || t.k == kTuple {
			fi.dropped = append(fi.dropped, true)
			if name != "_" && name != "" {
				c.scopes[0][name] = &local{coq: "", t: &ty{k: kOpaque, name: t.name}}
			}
			return
		}
		fi.dropped = append(fi.dropped, false)
		cn := "_"
		if name != "" && name != "_" {
			cn = c.declare(name, t)
		} else {
			cn = c.fresh("arg")
		}
		binders = append(binders, fmt.Sprintf("(%s : %s)", cn, t.coqType()))
	}
	if fd.Recv != nil && len(fd.Recv.List) == 1 {
		rn, ptr := recvTypeName(fd)
		if ptr && !g.ext && !g.ptr {
			fail("pointer receiver")
		}
		name := ""
		if len(fd.Recv.List[0].Names) == 1 {
			name = fd.Recv.List[0].Names[0].Name
		}
		rt := g.namedType(p, rn)
		if ptr {
			if rt.k != kStruct {
				fail("pointer receiver of type %s, which is outside the fragment", rt)
			}
			recvT, recvName = rt, name
		}
		addParam(name, rt, ptr)
	}
	for _, f := range fd.Type.Params.List {
		t := g.typeOf(p, c.file, f.Type)
		if el, variadic := f.Type.(*ast.Ellipsis); variadic {
			t = &ty{k: kOpaque, name: "variadic"}
			if et := g.typeOf(p, c.file, el.Elt); g.loop && (et.k == kFloat || et.k == kInt || et.k == kBool || et.k == kStruct) {
				t = &ty{k: kList, elems: []*ty{et}} // loop fragment: ...T is a list
			} else {
				fi.variadic = true
			}
		}
		_, isPtr := f.Type.(*ast.StarExpr)
		ref := isPtr || (t.k == kList && t.n == 0)
		if len(f.Names) == 0 {
			addParam("", t, ref)
		}
		for _, id := range f.Names {
			addParam(id.Name, t, ref)
		}
	}
	void := fd.Type.Results == nil || len(fd.Type.Results.List) == 0
	if void && (recvT == nil || recvName == "" || recvName == "_") {
		fail("function without a result")
	}
	var rts []*ty
	if void {
		// extended fragment: a method without results on a pointer receiver returns the updated receiver
		c.voidRecv = recvName
		rts = append(rts, recvT)
		fd = &ast.FuncDecl{Recv: fd.Recv, Name: fd.Name, Type: &ast.FuncType{Params: fd.Type.Params, Results: &ast.FieldList{}}, Body: fd.Body}
	}
	var rnames []string
	for _, f := range fd.Type.Results.List {
		t := g.typeOf(p, c.file, f.Type)
		if t.k == kOpaque || t.k == kFunc {
			fail("result type %s is outside the fragment", t)
		}
		if len(f.Names) == 0 {
			rts = append(rts, t)
		}
		for _, id := range f.Names {
			rts = append(rts, t)
			rnames = append(rnames, id.Name)
		}
	}
	if len(rts) == 1 {
		fi.result = rts[0]
	} else {
		fi.result = &ty{k: kTuple, elems: rts}
	}
	for _, i := range fi.outs {
		if i >= len(fi.params) || fi.dropped[i] {
			fail("internal: written argument %d is not translated", i)
		}
		fi.outTypes = append(fi.outTypes, fi.params[i])
	}
	// named results are variables holding the zero value
	var pre strings.Builder
	if len(rnames) == len(rts) {
		c.named = rnames
		for i, nm := range rnames {
			if nm == "_" {
				fail("blank named result")
			}
			fmt.Fprintf(&pre, "  let %s := %s in\n", c.declare(nm, rts[i]), c.zero(rts[i]))
		}
	}
	c.push()
	body := c.stmts(fd.Body.List, func(n int) string {
		if c.voidRecv != "" {
			if l := c.lookup(c.voidRecv); l != nil {
				return ind(n) + c.ret(l.coq)
			}
		}
		fail("control reaches the end of the function without a return")
		return ""
	}, 1)
	rtype := c.fullResultType().coqType()
	if fi.partial || fi.eff {
		rtype = "partial " + rtype
	}
	sig := fi.coq
	if len(binders) > 0 {
		sig += " " + strings.Join(binders, " ")
	}
	return fmt.Sprintf("Definition %s : %s :=\n%s%s.", sig, rtype, pre.String(), body), ""
}

// ---------------------------------------------------------------------------------------------
// output

func newGen(repo string, ext bool) *gen {
	return &gen{repo: repo, pkgs: map[string]*pkg{}, funcs: map[string]*funcInfo{}, structs: map[string]*ty{},
		named: map[string]*ty{}, consts: map[string]bool{}, eqbDone: map[string]bool{}, globals: map[string]bool{}, ext: ext}
}

const headerFuncs = `(* GENERATED FILE - do not edit.  Written by tools/gen_funcs (tools/gen_funcs.sh) from the Go
   source of the library under test, on every run of tools/check.py.  Each definition is the body of
   one Go function, translated operator by operator from the syntax tree into Gallina over the
   abstract ordinate carrier of coq/Base/FOps.v (nothing is simplified).  The obligations that the
   hand-written models compute the same functions are in coq/Proofs/Funcs_tie_*.v.  A function that
   could not be located or that leaves the translated fragment is set to [untranslatable "reason"],
   which breaks its obligation. *)
From Coq Require Import ZArith Bool String.
From SF Require Import Base.FOps.
Open Scope bool_scope.
`

const headerLoop = `(* GENERATED FILE - do not edit.  Written by tools/gen_funcs (tools/gen_funcs.sh, third output) from
   the Go source of the library under test, on every run of tools/check.py: functions with loops
   over sequences, and the loop-free functions they call.  Each definition is the body of one Go
   function, translated operator by operator, statement by statement from the syntax tree into
   Gallina over the abstract ordinate carrier of coq/Base/FOps.v; nothing is simplified.  The
   translation of sequences, indexing and loops is described in coq/Base/FLoop.v: a Sequence is the
   list of its Coordinates, an index outside the range is the explicit outcome
   [Unknown "index out of range"], a loop is a structural recursion carrying the assigned variables,
   with continue / break / return as explicit outcomes of one iteration.  The obligations that the
   hand-written models compute the same functions on all arguments (lists of any length) are in
   coq/Proofs/Funcs_tie_Loop_*.v.  A function that could not be located or that leaves the
   translated fragment is set to [untranslatable "reason"], which breaks its obligation. *)
From Coq Require Import ZArith Bool String List.
From SF Require Import Base.FOps Base.FLoop.
Import ListNotations.
Open Scope bool_scope.
`

const headerInt = `(* GENERATED FILE - do not edit.  Written by tools/gen_funcs (tools/gen_funcs.sh, fourth output) from
   the Go source of the library under test - and, for the varint functions TWKB uses, from
   encoding/binary of the Go toolchain in use - on every run of tools/check.py: integer and bit
   level functions.  Each definition is the body of one Go function, translated operator by operator,
   statement by statement from the syntax tree into Gallina; nothing is simplified.  Integers of
   every fixed-width type are values of Z; wherever Go wraps around the translation says so: the
   result of every arithmetic or bit operation and of every conversion is reduced into the range of
   its type by wrap_u8 .. wrap_u64 (modulo 2^n) / wrap_i8 .. wrap_i64 (two's complement) of
   coq/Base/FInt.v (int and uint are 64 bits wide).  Slices, indexing and loops are translated as in
   coq/Base/FLoop.v; a condition-only for loop is [while_loop] with a fuel derived from the loop.
   A function that writes through an argument (elements of a slice argument, fields of a pointer
   receiver) returns the final value of that argument after its results.  The obligations that the
   hand-written models compute the same functions on all arguments are in
   coq/Proofs/Funcs_tie_Int_*.v.  A function that could not be located or that leaves the
   translated fragment is set to [untranslatable "reason"], which breaks its obligation. *)
From Coq Require Import ZArith Bool String List.
From SF Require Import Base.FOps Base.FLoop Base.FInt.
Import ListNotations.
Open Scope bool_scope.
`

const headerCarto = `(* GENERATED FILE - do not edit.  Written by tools/gen_funcs (tools/gen_funcs.sh, second output) from
   the Go source of the library under test, on every run of tools/check.py: the package carto (nine
   map projections: constructor, setters, Forward, Reverse; the helpers of carto/util.go; the radius
   constants).  Each definition is the body of one Go function, translated operator by operator from
   the syntax tree into Gallina over the carrier of coq/Base/FOpsT.v (record fops_t: the operations
   of coq/Base/FOps.v, written [ops] below, plus pi and the elementary functions of package math);
   nothing is simplified.  A pointer to a struct is translated as the struct value: a method with a
   pointer receiver takes the receiver value, a method without results returns the receiver value
   as updated by its body, &T{..} is the value T{..}.  An array [N]T is an N-tuple.  The obligations
   that the model coq/Model/Carto.v computes the same functions over the real numbers are in
   coq/Proofs/Funcs_tie_Carto.v.  A function that could not be located or that leaves the
   translated fragment is set to [untranslatable "reason"], which breaks its obligation. *)
From Coq Require Import ZArith Bool String.
From SF Require Import Base.FOps Base.FOpsT.
Open Scope bool_scope.
`

// the text of one generated file
func (g *gen) emit(header string, floatConsts []item) []byte {
	var b bytes.Buffer
	b.WriteString(header)
	b.WriteString("\n(* ==================== struct types (one record per Go struct, fields in declaration order) *)\n")
	for _, t := range g.sorder {
		if g.inGroup[t] {
			continue // emitted with the struct it refers to
		}
		if grp := g.recDeps[t.p.rel+":"+t.name]; len(grp) > 0 {
			g.emitRecGroup(&b, append(append([]*ty(nil), grp...), t))
			continue
		}
		fmt.Fprintf(&b, "\n(* %s/%s: type %s struct *)\n", t.p.rel, t.file, t.name)
		fmt.Fprintf(&b, "Record %s (F : Type) := Mk_%s {", t.coq, t.coq)
		for i, f := range t.fields {
			if i > 0 {
				b.WriteString(";")
			}
			ft := f.t.coqType()
			fmt.Fprintf(&b, "\n  %s : %s", proj(t, f.name), ft)
		}
		b.WriteString("\n}.\n")
		fmt.Fprintf(&b, "Arguments Mk_%s {F}.\n", t.coq)
		for _, f := range t.fields {
			fmt.Fprintf(&b, "Arguments %s {F} _.\n", proj(t, f.name))
		}
	}
	b.WriteString("\n(* ==================== typed integer constants *)\n")
	for _, it := range g.citems {
		fmt.Fprintf(&b, "\n(* %s *)\n%s\n", cmt(it.comment), it.def)
	}
	if g.ext {
		b.WriteString("\n(* ==================== function bodies *)\nSection Funcs.\nContext {F : Type} (T : fops_t F).\nLocal Notation ops := (t_base T).\n")
		b.WriteString("\n(* ---- float constants (exact value of the constant expression, lowest terms) *)\n")
		for _, it := range floatConsts {
			fmt.Fprintf(&b, "\n(* %s *)\n%s\n", cmt(it.comment), it.def)
		}
		b.WriteString("\n(* ---- functions *)\n")
	} else if g.loop {
		b.WriteString("\n(* ==================== function bodies *)\nSection Funcs.\nContext {F : Type} (ops : fops F).\n")
		b.WriteString("(* operations of package math outside the record fops: a definition that uses one takes it as an\n   additional argument (after ops, in this order) *)\n")
		b.WriteString("Context (f_inf : Z -> F) (f_ceil : F -> F) (f_floor : F -> F) (f_to_int : F -> Z) (f_ilogb : F -> Z) (f_ldexp : F -> Z -> F).\n")
		if g.seqOps {
			b.WriteString("(* geom.Sequence is translated as the list of its Coordinates; its flat representation is not: the\n   coordinates type of a sequence and the constructor geom.NewSequence(floats, ctype) are operations *)\n")
			b.WriteString("Context (f_seq_ctype : list (geom_Coordinates F) -> Z) (f_seq_new : list F -> Z -> list (geom_Coordinates F)).\n")
		}
	} else {
		b.WriteString("\n(* ==================== function bodies *)\nSection Funcs.\nContext {F : Type} (ops : fops F).\n")
	}
	for _, it := range g.items {
		fmt.Fprintf(&b, "\n(* %s *)\n%s\n", cmt(it.comment), it.def)
	}
	b.WriteString("\nEnd Funcs.\n")
	fmt.Fprintf(&b, "\n(* translated: %d functions; not translated: %d *)\n", len(g.okFuncs), len(g.badFuncs))
	if len(warnings) > 0 {
		b.WriteString("\n(* generator warnings:\n")
		for _, w := range warnings {
			fmt.Fprintf(&b, "   - %s\n", cmt(w))
		}
		b.WriteString("*)\n")
	}
	return b.Bytes()
}

// a float constant of package p as a value of the carrier (second output)
func (g *gen) floatConst(p *pkg, name string) (it item) {
	coq := p.name + "_" + coqIdent(name)
	g.globals[coq] = true
	it.comment = fmt.Sprintf("%s: const %s", p.rel, name)
	defer func() {
		if r := recover(); r != nil {
			e, ok := r.(trErr)
			if !ok {
				panic(r)
			}
			warn("%s: constant %s not translated: %s", p.rel, name, string(e))
			it.comment += "  NOT TRANSLATED: " + string(e)
			it.def = fmt.Sprintf("Definition %s := untranslatable %s.", coq, coqString(string(e)))
		}
	}()
	cs := p.consts[name]
	if cs == nil {
		fail("constant not found in package %s", p.rel)
	}
	it.comment = fmt.Sprintf("%s/%s: const %s", p.rel, cs.file, name)
	v := g.constant(p, cs)
	c := &ctx{g: g, p: p, file: p.files[cs.file], used: map[string]bool{}}
	if v.t.k == kUntyped {
		v = c.constAt(v.c, tFloat)
	}
	if v.t.k != kFloat {
		fail("constant of type %s", v.t)
	}
	it.def = fmt.Sprintf("Definition %s : F := %s.", coq, v.code)
	return it
}

func writeOut(path string, data []byte) {
	if path == "-" {
		os.Stdout.Write(data)
		return
	}
	if err := os.WriteFile(path, data, 0o644); err != nil {
		fmt.Fprintln(os.Stderr, "gen_funcs:", err)
		os.Exit(2)
	}
}

func main() {
	repo := flag.String("repo", "", "root of the Go repository (default $VERIF_REPO or /repo)")
	out := flag.String("o", "", "output file of the kernel functions, coq/Gen/Funcs.v (- for stdout)")
	outCarto := flag.String("ocarto", "", "output file of the package carto, coq/Gen/FuncsCarto.v (- for stdout)")
	outLoop := flag.String("oloop", "", "output file of the functions with loops over sequences, coq/Gen/FuncsLoop.v (- for stdout)")
	outInt := flag.String("oint", "", "output file of the integer / bit functions (varints, R-tree), coq/Gen/FuncsInt.v (- for stdout)")
	flag.Parse()
	if *repo == "" {
		*repo = os.Getenv("VERIF_REPO")
	}
	if *repo == "" {
		*repo = "/repo"
	}
	if *out == "" && *outCarto == "" && *outLoop == "" && *outInt == "" {
		*out = "-"
	}
	if *out != "" {
		g := newGen(*repo, false)
		for _, r := range roots {
			g.translate(g.pkgOf(r.pkg), r.key, r.partial)
		}
		writeOut(*out, g.emit(headerFuncs, nil))
	}
	if *outCarto != "" {
		warnings = nil // the warnings listed at the end of a file are those of that file
		g := newGen(*repo, true)
		p := g.pkgOf("carto")
		var fc []item
		for _, name := range cartoConsts {
			fc = append(fc, g.floatConst(p, name))
		}
		for _, r := range cartoRoots {
			g.translate(g.pkgOf(r.pkg), r.key, r.partial)
		}
		writeOut(*outCarto, g.emit(headerCarto, fc))
	}
	if *outLoop != "" {
		warnings = nil
		g := newGen(*repo, false)
		g.loop = true
		for _, r := range loopRoots {
			g.translate(g.pkgOf(r.pkg), r.key, r.partial)
		}
		writeOut(*outLoop, g.emit(headerLoop, nil))
	}
	if *outInt != "" {
		warnings = nil
		g := newGen(*repo, false)
		g.loop, g.intm, g.ptr = true, true, true
		for _, r := range intRoots {
			g.translate(g.pkgOf(r.pkg), r.key, r.partial)
		}
		writeOut(*outInt, g.emit(headerInt, nil))
	}
}
