#!/usr/bin/env python3
"""Regenerates MANIFEST.json from props/Cxx.json (one file per claimed property)."""
import json, os, glob
V = os.path.dirname(os.path.dirname(os.path.abspath(__file__)))
ids = [json.loads(l)["id"] for l in open(os.path.join(V, "properties.jsonl"))]
checks, na = [], []
for pid in ids:
    p = os.path.join(V, "props", pid + ".json")
    ready = open(os.path.join(V, "props", "ready.txt")).read().split()
    if not os.path.exists(p) or pid not in ready:
        na.append(dict(property_id=pid, reason="no check registered yet: the model/theorems for this property are not built in this snapshot (see DESIGN.md section 3)"))
        continue
    pr = json.load(open(p))
    if pr.get("not_applicable"):
        na.append(dict(property_id=pid, reason=pr["not_applicable"]))
        continue
    checks.append(dict(
        property_id=pid,
        quick_cmd="python3 tools/check.py %s --tier quick" % pid,
        thorough_cmd="python3 tools/check.py %s --tier thorough" % pid,
        evidence_file="evidence/%s.json" % pid,
        replay_cmd_template="python3 tools/check.py %s --replay {path}" % pid,
        engine="coq-model+correspondence",
        level_claimed=dict(category=pr.get("level", "proof"), text=pr["level_text"], design_ref=pr.get("design_ref", "DESIGN.md section 3, " + pid)),
        level_note=pr["level_note"],
        technique=pr.get("technique", "machine-checked Coq theorems over a Gallina model + differential correspondence run against the Go implementation"),
    ))
m = dict(
    version=1,
    setup_cmd="python3 tools/setup.py",
    hooks=dict(guard="verif", enable="go build -tags verif (add-only files *_verif.go / verif_hooks.go in /repo, each starting with //go:build verif)",
               baseline_off_cmd="cd /repo && GOFLAGS=-mod=mod GOPROXY=off GOSUMDB=off go test -vet=off -count=1 -timeout 25m ./...",
               source_commits=json.load(open(os.path.join(V, "hooks.json"))) if os.path.exists(os.path.join(V, "hooks.json")) else [],
               add_only=True),
    engines=[dict(name="coq-model+correspondence", path="tools/check.py", serves_properties=[c["property_id"] for c in checks],
                  kind_free_text="Coq 8.16 development under coq/ (Model, Proofs, Props); per property an extracted OCaml model driver and a Go harness built from /repo's working tree; tools/check.py orchestrates proof build, Print Assumptions audit, correspondence, known-findings matching and evidence")],
    checks=checks,
    notes="Every check rebuilds the Go harness from /repo's working tree and re-runs make on the Coq development (no-op when up to date). See DESIGN.md.",
    not_applicable=na,
)
json.dump(m, open(os.path.join(V, "MANIFEST.json"), "w"), indent=1)
print("MANIFEST: %d checks, %d not claimed" % (len(checks), len(na)))
