#!/usr/bin/env python3
"""Imports seeded changes delivered under /tmp/mut/<ID>/out/<k>/ after re-verifying each one in a fresh
scratch worktree: (a) the patch applies and the repository's test suite (the packages that pass on the
unchanged tree) still passes, (b) the demonstration fails with the change, (c) passes without it.
Verified changes are stored as seeded/<ID>-<k>/{patch.diff, demo_test.go, meta.json}.

  tools/import_seeded.py C04 [C07 ...]
"""
import json, os, re, shutil, subprocess, sys
V = os.path.dirname(os.path.dirname(os.path.abspath(__file__)))
ENV = dict(os.environ, GOFLAGS="-mod=mod", GOPROXY="off", GOSUMDB="off", GOTOOLCHAIN="local")
PKGS = "./carto/... ./geom/... ./rtree/... ./internal/cartodemo/..."


def sh(cmd, cwd=None, timeout=1800):
    p = subprocess.run(cmd, shell=True, cwd=cwd, env=ENV, stdout=subprocess.PIPE, stderr=subprocess.STDOUT, timeout=timeout)
    return p.returncode, p.stdout.decode("utf-8", "replace")


def demo_target(src):
    m = re.search(r"^package\s+(\w+)", src, flags=re.M)
    pkg = m.group(1) if m else ""
    hint = re.search(r"(geom|rtree|carto)/[A-Za-z0-9_]+_test\.go", src)
    if hint:
        return hint.group(0).split("/")[0]
    for d in ("geom", "rtree", "carto"):
        if pkg in (d, d + "_test"):
            return d
    return None


def main():
    for pid in sys.argv[1:]:
        base = "/tmp/mut/%s/out" % pid
        for k in sorted(os.listdir(base)):
            d = os.path.join(base, k)
            if not os.path.isfile(os.path.join(d, "patch.diff")):
                continue
            name = "%s-%s" % (pid, k)
            wt = "/tmp/seedverify_%s" % name
            sh("git -C /repo worktree remove --force " + wt)
            rc, out = sh("git -C /repo worktree add --detach %s HEAD" % wt)
            try:
                demo = [f for f in os.listdir(d) if f.endswith(".go")]
                src = open(os.path.join(d, demo[0])).read() if demo else ""
                tgt = demo_target(src)
                res = dict(applies=False, suite_passes=False, demo_fails_with=False, demo_passes_without=False)
                if tgt is None:
                    print(name, "cannot place demo (package main?) - manual"); continue
                dst = os.path.join(wt, tgt, "zz_seed_demo_test.go")
                m0 = json.load(open(os.path.join(d, "meta.json")))
                race = "CGO_ENABLED=1 go test -race" if m0.get("needs_race") else "go test"
                run = race + " -vet=off -count=1 -run 'Demo|Seed|Mut' ./%s/" % tgt
                shutil.copy(os.path.join(d, demo[0]), dst)
                rc, out = sh(run, cwd=wt)
                res["demo_passes_without"] = rc == 0 and "no tests to run" not in out
                os.remove(dst)
                rc, out = sh("git apply %s" % os.path.join(d, "patch.diff"), cwd=wt)
                res["applies"] = rc == 0
                if rc == 0:
                    rc, out = sh("go test -vet=off -count=1 " + PKGS, cwd=wt)
                    res["suite_passes"] = rc == 0
                    if rc != 0:
                        res["suite_tail"] = out[-600:]
                    shutil.copy(os.path.join(d, demo[0]), dst)
                    rc, out = sh(run, cwd=wt)
                    res["demo_fails_with"] = rc != 0 and ("FAIL" in out)
                ok = all(res[x] for x in ("applies", "suite_passes", "demo_fails_with", "demo_passes_without"))
                print(name, "VERIFIED" if ok else "REJECTED", res)
                if ok:
                    sd = os.path.join(V, "seeded", name)
                    os.makedirs(sd, exist_ok=True)
                    shutil.copy(os.path.join(d, "patch.diff"), sd)
                    shutil.copy(os.path.join(d, demo[0]), os.path.join(sd, "demo_test.go"))
                    meta = json.load(open(os.path.join(d, "meta.json")))
                    meta["property"] = meta.get("property") if pid.startswith("X") else pid[:3]
                    if meta.get("also_breaks"):
                        meta["checks"] = [meta["property"]] + [c for c in meta["also_breaks"] if c != meta["property"]]
                    meta["demo_location"] = "%s/zz_seed_demo_test.go" % tgt
                    meta["verified_by_integrator"] = dict(res, how="fresh worktree of /repo HEAD; `git apply patch.diff`; `go test -vet=off -count=1 %s` passes; demo copied to %s fails with and passes without the change" % (PKGS, meta["demo_location"]))
                    json.dump(meta, open(os.path.join(sd, "meta.json"), "w"), indent=1)
            finally:
                sh("git -C /repo worktree remove --force " + wt)


if __name__ == "__main__":
    main()
