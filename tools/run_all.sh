#!/bin/bash
# runs the quick (or $1) tier of every registered check sequentially against /repo; summary on stdout
cd /verif
TIER=${1:-quick}
for p in $(cat props/ready.txt); do
  s=$(date +%s)
  out=$(python3 tools/check.py $p --tier $TIER 2>&1 | grep -v "^WARNING conda")
  rc=$?
  echo "$p rc=$(echo "$out" | grep -c '^VIOLATION') $(echo "$out" | grep "^$p:" | tail -1) [$(( $(date +%s) - s )) s]"
  echo "$out" | grep '^VIOLATION\|^problem' | cut -c1-300
done
