#!/usr/bin/env python3
"""Runs the registered checks against every seeded change under seeded/<id>/ (patch.diff, meta.json).

  tools/run_seeded.py [id ...] [--tier quick]

For each seeded change: apply it to /repo (git apply), run the quick check of the property it breaks,
undo it (git checkout -- . ; git clean of added files listed in the patch), record caught / missed in
seeded/RESULTS.json. Never leaves /repo modified (a finally block restores it)."""
import json, os, re, subprocess, sys, time
V = os.path.dirname(os.path.dirname(os.path.abspath(__file__)))
R = "/repo"   # --worktree: use a scratch worktree + VERIF_REPO instead of /repo itself (safe while others use /repo)


def sh(cmd, cwd=None, timeout=3600):
    p = subprocess.run(cmd, shell=True, cwd=cwd, stdout=subprocess.PIPE, stderr=subprocess.STDOUT, timeout=timeout)
    return p.returncode, p.stdout.decode("utf-8", "replace")


def main():
    global R
    ids = [a for a in sys.argv[1:] if not a.startswith("--")]
    envp = ""
    if "--worktree" in sys.argv:
        R = os.environ.get("SEEDRUN_WT", "/tmp/seedrun_wt")
        sh("git -C /repo worktree remove --force %s" % R)
        rc, out = sh("git -C /repo worktree add --detach %s HEAD" % R)
        if rc != 0:
            print(out); sys.exit(2)
        envp = "VERIF_REPO=%s " % R
    sd = os.path.join(V, "seeded")
    if not ids:
        ids = sorted(d for d in os.listdir(sd) if os.path.isfile(os.path.join(sd, d, "patch.diff")))
    resp = os.path.join(sd, "RESULTS.json")
    results = json.load(open(resp)) if os.path.exists(resp) else {}
    rc, st = sh("git status --porcelain", cwd=R)
    if st.strip():
        print("refusing: /repo working tree is not clean:\n" + st)
        sys.exit(2)
    for i in ids:
        d = os.path.join(sd, i)
        meta = json.load(open(os.path.join(d, "meta.json")))
        props = meta.get("checks") or [meta["property"]]
        patch = os.path.join(d, "patch.diff")
        added = re.findall(r"^\+\+\+ b/(\S+)", open(patch).read(), flags=re.M)
        rc, out = sh("git apply --check %s && git apply %s" % (patch, patch), cwd=R)
        if rc != 0:
            results[i] = dict(status="patch-does-not-apply", detail=out[-400:])
            print(i, "PATCH DOES NOT APPLY")
            continue
        try:
            res = {}
            for pid in props:
                t0 = time.time()
                rc, out = sh(envp + "python3 tools/check.py %s --tier quick" % pid, cwd=V)
                vio = [l for l in out.splitlines() if l.startswith("VIOLATION")]
                res[pid] = dict(exit=rc, violation_lines=vio, wall_s=round(time.time() - t0, 1),
                                tail=out.splitlines()[-6:])
            def infra(r):
                t = "\n".join(r["tail"])
                return ("extraction failed" in t or "driver build failed" in t or "Cannot find a physical path" in t) and \
                    all("no-failing-input-found" in v for v in r["violation_lines"])
            if any(infra(r) for r in res.values()):
                results[i] = dict(status="infra-rerun", property=meta["property"], checks=res)
                print(i, "INFRA (concurrent build?) - rerun")
                continue
            caught = any(r["exit"] == 1 and r["violation_lines"] for r in res.values())
            results[i] = dict(status="caught" if caught else "MISSED", property=meta["property"], checks=res,
                              summary=meta.get("summary", ""))
            print(i, results[i]["status"], {p: (r["exit"], r["violation_lines"][:1]) for p, r in res.items()})
        finally:
            sh("git checkout -- .", cwd=R)
            rc, st = sh("git status --porcelain", cwd=R)
            for line in st.splitlines():
                if line.startswith("?? "):
                    sh("rm -rf -- '%s'" % line[3:], cwd=R)
        json.dump(results, open(resp, "w"), indent=1)
    if envp:
        sh("git -C /repo worktree remove --force %s" % R)
    miss = [i for i in ids if results.get(i, {}).get("status") != "caught"]
    print("seeded: %d run, %d not caught: %s" % (len(ids), len(miss), miss))


if __name__ == "__main__":
    main()
