#!/usr/bin/env python3
"""Prints the brief for a seed writer (a fresh sub-agent that gets ONLY a property's text and its own scratch
worktree of /repo - nothing from /verif) for one property and one round:

    python3 tools/seed_prompt.py C07 r9 > /tmp/seed_prompt_C07.txt

The sub-agent is then told: "Read the file /tmp/seed_prompt_C07.txt and carry out the task it describes exactly.
Do not read anything under /verif."  What it delivers under /tmp/mut/C07r9/out/<k>/ is re-verified and stored by
`tools/import_seeded.py C07r9`; `tools/run_seeded.py <ids> --worktree` runs the quick checks against each change."""
import json, os, sys

V = os.path.dirname(os.path.dirname(os.path.abspath(__file__)))


def main():
    pid, rnd = sys.argv[1], sys.argv[2]
    prop = None
    for l in open(os.path.join(V, "properties.jsonl")):
        p = json.loads(l)
        if p["id"] == pid:
            prop = json.dumps(p, indent=1)
    tag = pid + rnd
    print(f"""You are helping test a verification effort by mutation. The Go library peterstace/simplefeatures (a pure-Go 2D geometry library) is checked out in git repository /repo. DO NOT modify /repo itself and do not look at anything under /verif (off limits). Create your own scratch worktree:

    git -C /repo worktree add --detach /tmp/mut/{tag}/wt HEAD

and work only there. Every shell call needs: export GOFLAGS=-mod=mod GOPROXY=off GOSUMDB=off GOTOOLCHAIN=local  (no network available).

Here is a semantic property the library is supposed to satisfy:

{prop}

Your task: write TWO different, independent, realistic changes to the library's non-test source code (each a separate patch against HEAD), each of which BREAKS this property, while (a) the code still compiles, and (b) the entire existing test suite still passes:  (cd /tmp/mut/{tag}/wt && go test -vet=off -count=1 ./carto/... ./geom/... ./rtree/... ./internal/cartodemo/...)  (takes ~30 s). The changes should look like plausible refactors, optimisations or bug fixes a maintainer could write in good faith. IMPORTANT: each change must need something SPECIFIC to manifest: an unusual input shape, a particular member order, a count/size boundary, a multi-step sequence of operations, a particular option combination, or two cooperating edit sites that each look fine alone. Do NOT produce changes that ordinary use would expose at once. Prefer different mechanisms/files for the two changes. Do not edit any *_test.go file and do not add build tags.

For each change k in 1,2 deliver a directory /tmp/mut/{tag}/out/<k>/ containing:
  - patch.diff   : `git diff` output against HEAD (must apply with `git apply` in a clean worktree of HEAD)
  - demo_test.go : a Go test file (package geom_test, rtree_test or carto_test as appropriate, importing github.com/peterstace/simplefeatures/...) with a test function whose name starts with TestSeedDemo that FAILS with the change applied and PASSES on the unchanged tree. It will be copied to <pkg>/zz_seed_demo_test.go and run with `go test -vet=off -count=1 -run 'Demo|Seed|Mut' ./<pkg>/`. Mention the path like geom/zz_seed_demo_test.go in a comment at the top of the file.
  - meta.json    : {{"property": "{pid}", "clause": "<which clause of the property is broken>", "summary": "<what the change does and why it looks innocent>", "needs": "<what exactly is needed for it to manifest>", "files": ["..."], "needs_race": false}}

Verify all of this yourself for each change (apply to clean worktree, full suite passes, demo fails; git stash/checkout, demo passes). After both are delivered, clean up: remove your worktree with `git -C /repo worktree remove --force /tmp/mut/{tag}/wt` (keep /tmp/mut/{tag}/out). Report briefly what the two changes are.""")


if __name__ == "__main__":
    main()
