#!/usr/bin/env python3
"""MANIFEST.setup_cmd: full .vo build of the Coq development from files on disk (offline)."""
import os, sys, subprocess
sys.path.insert(0, os.path.dirname(os.path.abspath(__file__)))
import check
check.coq_project()
rc = subprocess.call("make -j16", shell=True, cwd=check.COQ)
sys.exit(rc)
