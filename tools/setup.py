#!/usr/bin/env python3
"""MANIFEST.setup_cmd: full .vo build (never -vos) of every registered property's Coq closure, offline."""
import glob, json, os, sys, subprocess
sys.path.insert(0, os.path.dirname(os.path.abspath(__file__)))
import check
check.coq_project()
targets = []
claimed = [c["property_id"] for c in json.load(open(os.path.join(check.VERIF, "MANIFEST.json")))["checks"]]
for pid in claimed:
    pr = json.load(open(os.path.join(check.VERIF, "props", pid + ".json")))
    if pr.get("props_file"):
        targets.append(pr["props_file"][:-2] + ".vo")
    targets += [t[:-2] + ".vo" for t in pr.get("props_extra", []) + pr.get("extra_coq", [])]
    targets += check.extract_deps(pr)
rc = subprocess.call("make -j16 " + " ".join(sorted(set(targets))), shell=True, cwd=check.COQ)
sys.exit(rc)
